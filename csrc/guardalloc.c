/* Guarded allocator for JIT-compiled (LLVM) kernels: malloc/realloc replacements that put a patterned guard zone
 * BEHIND every block (the returned pointer is the real malloc pointer, so free() by the rest of the process keeps
 * working) and verify the zone when the block is re-allocated and on demand. */
#include <stdint.h>
#include <stdlib.h>
#include <string.h>

#define GUARD 128
#define MAXB 8192
static void* blocks[MAXB];
static size_t sizes[MAXB];
static int nb = 0;
static int violations = 0;

static void paint(void* p, size_t n) { memset((char*)p + n, 0xA5, GUARD); }
static int intact(void* p, size_t n) {
  const unsigned char* g = (const unsigned char*)p + n;
  for (int i = 0; i < GUARD; i++) if (g[i] != 0xA5) return 0;
  return 1;
}
static int find(void* p) { for (int i = nb - 1; i >= 0; i--) if (blocks[i] == p) return i; return -1; }

void* guard_malloc(size_t n) {
  void* p = malloc(n + GUARD);
  if (!p) return p;
  paint(p, n);
  if (nb < MAXB) { blocks[nb] = p; sizes[nb] = n; nb++; }
  return p;
}

void* guard_realloc(void* old, size_t n) {
  int k = old ? find(old) : -1;
  if (k >= 0 && !intact(old, sizes[k])) violations++;
  if (n == 0) { /* glibc: realloc(p, 0) frees and returns NULL */
    if (old) free(old);
    if (k >= 0) { blocks[k] = blocks[nb - 1]; sizes[k] = sizes[nb - 1]; nb--; }
    return NULL;
  }
  void* p = realloc(old, n + GUARD);
  if (!p) return p;
  paint(p, n);
  if (k >= 0) { blocks[k] = p; sizes[k] = n; }
  else if (nb < MAXB) { blocks[nb] = p; sizes[nb] = n; nb++; }
  return p;
}

/* number of guard zones found overwritten so far (checks every live block) */
int guard_check(void) {
  int bad = violations;
  for (int i = 0; i < nb; i++) if (!intact(blocks[i], sizes[i])) bad++;
  return bad;
}

void guard_forget(void) { nb = 0; violations = 0; }
