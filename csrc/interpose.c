/* LD_PRELOAD interposer for C13: counts free()/realloc() calls on watched addresses and quarantines
 * watched blocks (they are never really freed, so addresses are not recycled and a second free is
 * observable instead of corrupting the heap). */
#define _GNU_SOURCE
#include <dlfcn.h>
#include <pthread.h>
#include <stddef.h>
#include <stdint.h>
#include <stdlib.h>

static void (*real_free)(void*) = NULL;
static void* (*real_realloc)(void*, size_t) = NULL;
#define MAXW 262144
static void* watched[MAXW];
static int freed[MAXW];
static int nw = 0;
static long total_hits = 0;
static pthread_mutex_t mu = PTHREAD_MUTEX_INITIALIZER;

void verif_watch(void* p) {
  if (!p) return;
  pthread_mutex_lock(&mu);
  if (nw < MAXW) { watched[nw] = p; freed[nw] = 0; nw++; }
  pthread_mutex_unlock(&mu);
}

int verif_free_count(void* p) {
  int c = -1;
  pthread_mutex_lock(&mu);
  for (int i = nw - 1; i >= 0; i--) if (watched[i] == p) { c = freed[i]; break; }
  pthread_mutex_unlock(&mu);
  return c;
}

void verif_reset(void) { pthread_mutex_lock(&mu); nw = 0; pthread_mutex_unlock(&mu); }
long verif_total_hits(void) { return total_hits; }
int verif_watched(void) { return nw; }

/* capture mode: while on, every free() is logged and deferred, so that a block released *during* a call (before
 * its address could be watched) is still observable afterwards */
#define MAXC 65536
static void* captured[MAXC];
static int nc = 0;
static int capturing = 0;
void verif_capture(int on) { pthread_mutex_lock(&mu); capturing = on; pthread_mutex_unlock(&mu); }
int verif_was_captured(void* p) {
  int c = 0;
  pthread_mutex_lock(&mu);
  for (int i = 0; i < nc; i++) if (captured[i] == p) c++;
  pthread_mutex_unlock(&mu);
  return c;
}
void verif_capture_release(void* keep_quarantined[], int nkeep) {
  if (!real_free) real_free = dlsym(RTLD_NEXT, "free");
  pthread_mutex_lock(&mu);
  int n = nc; nc = 0;
  pthread_mutex_unlock(&mu);
  for (int i = 0; i < n; i++) {
    int keep = 0;
    for (int k = 0; k < nkeep; k++) if (keep_quarantined[k] == captured[i]) keep = 1;
    for (int j = 0; j < i; j++) if (captured[j] == captured[i]) keep = 1; /* logged twice: free once at most */
    if (!keep) real_free(captured[i]);
  }
}
static int capture(void* p) {
  int took = 0;
  pthread_mutex_lock(&mu);
  if (capturing && p && nc < MAXC) { captured[nc++] = p; took = 1; }
  pthread_mutex_unlock(&mu);
  return took;
}

static int note(void* p) {
  int hit = 0;
  if (!p || nw == 0) return 0;
  pthread_mutex_lock(&mu);
  for (int i = nw - 1; i >= 0; i--) if (watched[i] == p) { freed[i]++; hit = 1; total_hits++; break; }
  pthread_mutex_unlock(&mu);
  return hit;
}

void free(void* p) {
  if (!real_free) real_free = dlsym(RTLD_NEXT, "free");
  if (note(p)) return; /* quarantine */
  if (capture(p)) return; /* deferred */
  real_free(p);
}

void* realloc(void* p, size_t n) {
  if (!real_realloc) real_realloc = dlsym(RTLD_NEXT, "realloc");
  if (p && note(p)) return malloc(n); /* a watched block is being given up: count it, hand out fresh memory */
  return real_realloc(p, n);
}
