"""Child for C15: generate code for a corpus of requests in this process (its own PYTHONHASHSEED) in the given
order; print {request id: sha1 of the text | 'F:<ErrorName>' | 'EXC:<Name>'} as JSON.
stdin: {"requests": [{id, assignment, formats, kinds, language}], "order": [ids]}"""
import hashlib
import json
import os
import sys

sys.path.insert(0, os.path.dirname(os.path.dirname(os.path.abspath(__file__))))
from harness import bridge  # noqa: E402

bridge.ensure_tensora()
from returns.result import Failure  # noqa: E402
from tensora.expression import parse_assignment  # noqa: E402
from tensora.format import parse_format  # noqa: E402
from tensora.generate import Language, generate_code  # noqa: E402
from tensora.kernel_type import KernelType  # noqa: E402
from tensora.problem import make_problem  # noqa: E402

req = json.load(sys.stdin)
by_id = {r["id"]: r for r in req["requests"]}
out = {}
for rid in req["order"]:
    r = by_id[rid]
    try:
        asg = parse_assignment(r["assignment"]).unwrap()
        fm = {n: parse_format(f).unwrap() for n, f in r["formats"].items()}
        prob = make_problem(asg, fm).unwrap()
        res = generate_code(prob, [KernelType[k] for k in r["kinds"]], Language[r["language"]])
        if isinstance(res, Failure):
            out[str(rid)] = "F:" + type(res.failure()).__name__
        else:
            out[str(rid)] = hashlib.sha1(res.unwrap().encode()).hexdigest()
    except Exception as e:  # noqa: BLE001
        out[str(rid)] = "EXC:" + type(e).__name__
print(json.dumps(out, sort_keys=True))
