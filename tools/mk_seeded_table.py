#!/venv/bin/python
"""Print the DESIGN.md §8 table of seeded changes from seeded/*/meta.json (and a per-round tally)."""
import glob
import json
import os

VERIF = os.path.dirname(os.path.dirname(os.path.abspath(__file__)))
rows = []
tally = {}
for f in sorted(glob.glob(os.path.join(VERIF, "seeded", "*", "meta.json"))):
    m = json.load(open(f))
    missed = m.get("missed_at_first")
    if missed is None:
        missed = bool(m.get("history")) and "miss" in m["history"].lower()
    rnd = {"a": 1, "b": 2, "c": 3, "d": 4, "e": 4}.get(m["id"][-1], 5)
    if not m["caught_by_quick_checks"] and m.get("caught_by_thorough_checks"):
        m["caught_by_quick_checks"] = ["(thorough tier only: " + ", ".join(m["caught_by_thorough_checks"]) + ")"]
    t = tally.setdefault(rnd, [0, 0])
    t[0] += 1
    t[1] += 0 if missed else 1
    needs = m["needs_to_manifest"].replace("|", "/")
    rows.append(f"| {m['id']} | {needs} | {', '.join(m['caught_by_quick_checks'])} | {'yes' if missed else ''} |")
print("| id | needs, in order to manifest | caught by (quick tier) | missed at first |")
print("|---|---|---|---|")
print("\n".join(rows))
print()
for r in sorted(tally):
    print(f"round {r}: {tally[r][1]} of {tally[r][0]} caught by the checks as they stood")
