"""Regenerate MANIFEST.json from the table below (keeps the manifest valid at every commit)."""
import json, os
HERE = os.path.dirname(os.path.dirname(os.path.abspath(__file__)))
ALL = [f"C{n:02d}" for n in range(1, 17)]
CHECKS = {
 "C01": dict(cat="exploration", tech="property-based differential testing: Hypothesis-generated assignments/formats/level structures run on an IR abstract machine and natively (LLVM), compared with an exact-rational sum-of-products reference; metamorphic companions (formats, commutation, renaming)",
   text="Every generated (assignment, formats, sizes, stored inputs) case whose kernel is produced is executed and compared coordinate-by-coordinate with an independent exact-rational meaning; held on all cases generated within the stated bounds (<=6 leaves, order<=3, sizes<=4). Exploration, not proof.",
   note="Trusted: the harness's reference semantics (40 lines), the abstract machine (cross-checked against gcc and LLVM by C06), tensora's parser for turning case text into a Problem (checked by C12).", ref="DESIGN.md §3 C01"),
}
def main():
    checks = []
    for pid in ALL:
        if pid not in CHECKS: continue
        c = CHECKS[pid]
        checks.append({
            "property_id": pid,
            "quick_cmd": f"./vcheck {pid} --tier quick",
            "thorough_cmd": f"./vcheck {pid} --tier thorough",
            "evidence_file": f"evidence/{pid}.json",
            "replay_cmd_template": f"./vcheck {pid} --replay {{path}}",
            "engine": "vcheck",
            "level_claimed": {"category": c["cat"], "text": c["text"], "design_ref": c["ref"]},
            "level_note": c["note"],
            "technique": c["tech"],
        })
    na = [{"property_id": p, "reason": "check not built yet at this commit (planned, see DESIGN.md §3); nothing is claimed for it"} for p in ALL if p not in CHECKS]
    m = {
      "version": 1,
      "setup_cmd": "./setup.sh",
      "hooks": {"guard": "none", "enable": "no source hooks: the harness sets tensora.iteration_graph.outputs._append.default_array_size and tensora.generate._tensora.peephole in-process (harness/bridge.py knobs)", "baseline_off_cmd": "cd /repo && /venv/bin/python -m pytest -q -p no:cacheprovider --timeout=900 tests tests_cffi fuzz_tests/test_parsing.py", "source_commits": [], "add_only": True},
      "engines": [{"name": "vcheck", "path": "vcheck", "serves_properties": [c["property_id"] for c in checks], "kind_free_text": "Hypothesis-driven property-based testing harness with an IR abstract machine, exact-rational oracles, native worker processes and bounded-exhaustive enumerators"}],
      "checks": checks,
      "not_applicable": na,
      "notes": "All checks: exit 0 = held on everything explored (KNOWN-FINDING lines for recorded defects in known_findings.json), exit 1 + VIOLATION line = unlisted violation, exit 2 = harness error. VERIF_SEED seeds Hypothesis; violations are written under violations/<ID>/ as JSON replay files.",
    }
    json.dump(m, open(os.path.join(HERE, "MANIFEST.json"), "w"), indent=1)
if __name__ == "__main__":
    main()
