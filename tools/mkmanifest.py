"""Regenerate MANIFEST.json from the table below (keeps the manifest valid at every commit)."""
import json, os
HERE = os.path.dirname(os.path.dirname(os.path.abspath(__file__)))
ALL = [f"C{n:02d}" for n in range(1, 17)]
CHECKS = {
 "C01": dict(cat="exploration", tech="property-based differential testing: Hypothesis-generated assignments/formats/level structures run on an IR abstract machine and natively (LLVM), compared with an exact-rational sum-of-products reference; metamorphic companions (formats, commutation, renaming)",
   text="Every generated (assignment, formats, sizes, stored inputs) case whose kernel is produced is executed and compared coordinate-by-coordinate with an independent exact-rational meaning; held on all cases generated within the stated bounds (<=6 leaves, order<=3, sizes<=4). Exploration, not proof.",
   note="Trusted: the harness's reference semantics (40 lines), the abstract machine (cross-checked against gcc and LLVM by C06), tensora's parser for turning case text into a Problem (checked by C12).", ref="DESIGN.md §3 C01"),
 "C02": dict(cat="exploration", tech="property-based testing with a validity predicate: generated kernels run at initial capacities 1,2,3,default on the IR abstract machine (exact block lengths, init bits) and natively; result round-trips (pickle, to_format, copy kernel)",
   text="Every generated kernel with a compressed output level is executed at four initial capacities; the final heap must satisfy the stored-tensor invariants with exact array lengths, and the native result must survive pickling, conversion, comparison and re-use as an input. Held on all generated cases within the bounds.",
   note="Trusted: the abstract machine's heap model (realloc copies init bits, realloc(p,0) frees), the validity predicate (60 lines).", ref="DESIGN.md §3 C02"),
 "C03": dict(cat="exploration", tech="property-based testing against a set-semantics reference model: stored level-prefixes of generated sparse outputs (abstract machine) must lie in the independently computed structural support",
   text="For every generated kernel with a compressed output level, each stored prefix at each compressed level must extend to a coordinate in the support computed from the stored coordinate sets of the inputs (products intersect, sums unite, contraction projects, literals everywhere). One-directional, as stated. Exploration within bounds.",
   note="Trusted: the support model (25 lines) and the machine's decoding of the output heap.", ref="DESIGN.md §3 C03"),
 "C04": dict(cat="exploration", tech="history-based property testing on the IR abstract machine: assemble once, freeze structure and forbid allocation, compute on Hypothesis-drawn re-valuations, compare with evaluate and the exact-rational reference after every step",
   text="Generated histories (assemble; compute x 2..4 with re-valued inputs) run on the abstract machine with the structure read-only and allocation forbidden during compute; structure must equal evaluate's block for block, values must equal evaluate and the reference after each compute.",
   note="Trusted: abstract machine heap model; exact value class.", ref="DESIGN.md §3 C04"),
 "C05": dict(cat="exploration", tech="property-based safety checking: all three generated kernel kinds executed on a trapping IR abstract machine (bounds, initialisation, ownership, int32 range, deterministic step budget) at initial capacities 1,2,3,default; thorough adds gcc ASan+UBSan on the emitted C",
   text="Every load, store and reallocation of generated evaluate/assemble/compute kernels is checked on the abstract machine; inputs are compared before/after; returned arrays must be live and long enough. Exploration within bounds (sizes<=4, order<=3).",
   note="Trusted: abstract machine trap rules (validated against gcc/LLVM by C06 and by selftest snippets).", ref="DESIGN.md §3 C05"),
 "C06": dict(cat="translation_validation", tech="three-way differential testing (translation validation per program): emitted C compiled with clang/gcc under ASan+UBSan vs tensora's LLVM JIT vs the IR abstract machine, bit-for-bit, on generated kernels and on Hypothesis-generated well-typed IR programs",
   text="Each generated kernel module and each generated IR program is translated by both back ends and executed on the same inputs; structure arrays and the 64-bit patterns of all values must agree with each other and with direct execution of the IR. The emitted C must compile under -std=c11 with the strict -Werror set and the LLVM module must verify. Per-program validation, not a proof about the printers.",
   note="Trusted: clang 14 / gcc 12 and LLVM MCJIT as faithful executors of their input; the abstract machine as the IR's reference semantics (its disagreement with both back ends would show as a split with the machine as odd one out).", ref="DESIGN.md §3 C06"),
 "C07": dict(cat="exploration", tech="differential property-based testing of the optimiser: optimised vs unoptimised IR (generated kernels and Hypothesis-generated statement trees) executed on the IR abstract machine; equal return value and heap, access-set inclusion",
   text="Every generated kernel module (pass on vs pass replaced by the identity) and every generated IR statement tree is executed before and after tensora's peephole pass on small environments; results, heap contents and the set of memory accesses are compared. Exploration over a bounded grammar (depth<=4), all 16 documented rules hit.",
   note="Trusted: the abstract machine as IR semantics; programs whose original traps are discarded (reported).", ref="DESIGN.md §3 C07"),
 "C08": dict(cat="exploration", tech="bounded-exhaustive enumeration of templates x all format assignments plus Hypothesis-generated assignments (diagonal, broadcast, renamed, reserved names) against a totality predicate; CLI through CliRunner; gcc -fsyntax-only and llvmlite verify on accepted code",
   text="Every enumerated/generated (assignment, formats, kinds, language) request must return code or one of the documented typed refusals within a 60 s alarm, through the library, TensorMethod and the CLI; accepted code must be accepted by its tool chain. Per-template exhaustive over formats where the product is <= the tier limit (listed in evidence), otherwise a deterministic sample.",
   note="Trusted: gcc 12 and llvmlite as acceptance oracles; typer's CliRunner as a faithful CLI invocation.", ref="DESIGN.md §3 C08"),
 "C09": dict(cat="exploration", tech="bounded-exhaustive enumeration (all formats of order 0-3 x small dimensions x every coordinate subset x constructors) plus Hypothesis-generated constructions (order<=4, duplicates, shuffles, zero values, out-of-range variants) against an in-memory dict model; raw-array validity; pickle and to_format round-trips",
   text="Every enumerated/generated construction is compared with a dict model through to_dok/items, through the raw cffi arrays (canonical structure), through pickling and through to_format; out-of-range coordinates must raise. The sub-domain named in evidence is enumerated completely; the rest is sampled.",
   note="Trusted: the harness's raw-array decoder and validity predicate.", ref="DESIGN.md §3 C09"),
 "C10": dict(cat="fault_enumeration", tech="fault injection on generated valid calls: every fault kind (missing/extra/non-Tensor argument, wrong size of one dimension slot, wrong order, flipped mode, permuted ordering, wrong name, positional) x both entry points, with a spy replacing the compiled function pointer",
   text="For each Hypothesis-generated valid call whose kernel exists, every fault kind is injected in turn through evaluate() and tensor_method()(); the call must raise one of the documented exception types and the spy standing in for the compiled kernel must not be entered; the unmutated call must reach the spy exactly once.",
   note="Trusted: the spy sits exactly where TensorMethod calls the function pointer (self._evaluate).", ref="DESIGN.md §3 C10"),
 "C11": dict(cat="exploration", tech="bounded-exhaustive enumeration of operand format pairs x operators plus Hypothesis-generated operands (unequal dimensions, scalars of each Python type, wrong orders for @) against an exact-rational element-wise/matrix reference; results decoded from raw arrays in a disposable native worker",
   text="Every enumerated/generated operator call must return the tensor ordinary arithmetic defines (right dimensions, every coordinate), raise ValueError exactly when the shapes are incompatible, or refuse with NoKernelFoundError; for natural orderings the result format must follow the documented rule.",
   note="Trusted: the rational reference (30 lines) and the raw-array decoder.", ref="DESIGN.md §3 C11"),
 "C12": dict(cat="exploration", tech="grammar-based and arbitrary-text fuzzing (Hypothesis; Atheris coverage-guided in thorough) with round-trip oracles, an independent precedence-climbing evaluator as meaning oracle, typed-failure checks for sentences invalid by construction, and exhaustive enumeration of short format strings against a reference grammar",
   text="Generated sentences (all literal spellings, random spaces, redundant parentheses), generated trees, arbitrary and mutated text, and every format string over {d,s,0-3} up to the tier length go through the parsers: nothing is raised, accepted text round-trips, the parsed tree folds to the value an independent evaluator computes from the text, invalid sentences give the specific typed failure, format acceptance matches the documented grammar.",
   note="Trusted: the harness's 60-line tokenizer/evaluator as the conventional meaning of the text; bounded string length 256.", ref="DESIGN.md §3 C12"),
 "C13": dict(cat="exploration", tech="model-based history testing: exhaustive short histories plus Hypothesis RuleBasedStateMachine histories executed in a child under an LD_PRELOAD free()/realloc() interposer with quarantine, checked after every step against a reference-count model",
   text="Every history (evaluate to sparse/dense/scalar, alias, cffi struct, read, pickle, feed as input, delete, gc.collect) is executed on real tensora objects; after every step each kernel-allocated array must have been freed 0 times while referenced and exactly once after its last reference is gone (never twice, never during the call that produced it).",
   note="Trusted: the interposer sees every free/realloc (LD_PRELOAD first in resolution order); quarantine prevents address reuse inside a history.", ref="DESIGN.md §3 C13"),
 "C14": dict(cat="exploration", tech="schedule generation: Hypothesis-drawn workloads run under a line-level cooperative scheduler whose choice sequence is part of the case (controlled interleavings of tensora/compile/*.py), plus 16-thread stress rounds; differential oracle against the same calls made sequentially on a cold cache",
   text="Generated workloads (mix of cached/never-seen problems, both back ends) are run concurrently under generated, replayable interleavings and under free-running contention; every call must return exactly its sequential result, with no exception, hang or crash. Native-level races are only sampled (stated limit).",
   note="Trusted: sys.settrace line events as yield points; the sequential run in the same process as reference.", ref="DESIGN.md §3 C14"),
 "C15": dict(cat="exploration", tech="metamorphic determinism testing: the same generated requests in child processes under different PYTHONHASHSEED values and request orders (sha1 of text must agree), CLI-vs-library differential through CliRunner, and model-based cache histories (equal spellings vs near-misses, cache_clear) checked against isolated runs and a harness-side canonical key",
   text="Generated requests produce byte-identical text in every process, hash seed and order; the CLI prints or writes exactly the library text with unmentioned tensors dense; in generated call histories every result equals the same request on a cleared cache and a cache hit occurs only for a request whose canonical key was seen since the last clear.",
   note="Trusted: sha1 as text identity; the harness's canonical key (tree printed by the harness, formats as (modes, ordering)).", ref="DESIGN.md §3 C15"),
 "C16": dict(cat="exploration", tech="metamorphic property-based testing on the IR abstract machine: problems constructed to have a qualifying index class, its dimension scaled x1/x10/x100/x10^4 with the stored entries unchanged; executed statement and loop-iteration counters must be equal and the stored result identical",
   text="For every generated problem with an index that all operands and the output store only in compressed levels and that every additive term mentions, enlarging that dimension (together with its alias class) leaves the executed step count and the result unchanged. Exploration within bounds; no absolute cost model is needed.",
   note="Trusted: abstract-machine counters as the measure of work; the harness's monomial expansion for the 'every term mentions the index' precondition.", ref="DESIGN.md §3 C16"),
}
def main():
    checks = []
    for pid in ALL:
        if pid not in CHECKS: continue
        c = CHECKS[pid]
        checks.append({
            "property_id": pid,
            "quick_cmd": f"./vcheck {pid} --tier quick",
            "thorough_cmd": f"./vcheck {pid} --tier thorough",
            "evidence_file": f"evidence/{pid}.json",
            "replay_cmd_template": f"./vcheck {pid} --replay {{path}}",
            "engine": "vcheck",
            "level_claimed": {"category": c["cat"], "text": c["text"], "design_ref": c["ref"]},
            "level_note": c["note"],
            "technique": c["tech"],
        })
    na = [{"property_id": p, "reason": "check not built yet at this commit (planned, see DESIGN.md §3); nothing is claimed for it"} for p in ALL if p not in CHECKS]
    m = {
      "version": 1,
      "setup_cmd": "./setup.sh",
      "hooks": {"guard": "none", "enable": "no source hooks: the harness sets tensora.iteration_graph.outputs._append.default_array_size and tensora.generate._tensora.peephole in-process (harness/bridge.py knobs)", "baseline_off_cmd": "cd /repo && /venv/bin/python -m pytest -q -p no:cacheprovider --timeout=900 tests tests_cffi fuzz_tests/test_parsing.py", "source_commits": [], "add_only": True},
      "engines": [{"name": "vcheck", "path": "vcheck", "serves_properties": [c["property_id"] for c in checks], "kind_free_text": "Hypothesis-driven property-based testing harness with an IR abstract machine, exact-rational oracles, native worker processes and bounded-exhaustive enumerators"}],
      "checks": checks,
      "not_applicable": na,
      "notes": "All checks: exit 0 = held on everything explored (KNOWN-FINDING lines for recorded defects in known_findings.json), exit 1 + VIOLATION line = unlisted violation, exit 2 = harness error. VERIF_SEED seeds Hypothesis; violations are written under violations/<ID>/ as JSON replay files.",
    }
    json.dump(m, open(os.path.join(HERE, "MANIFEST.json"), "w"), indent=1)
if __name__ == "__main__":
    main()
