#!/bin/bash
# Run thorough tiers one after another; one line per check.  usage: run_all_thorough.sh [IDs...]
cd "$(dirname "$0")/.."
[ -f build/libinterpose.so ] || ./setup.sh >/dev/null 2>&1
ids="${@:-C16 C04 C10 C09 C11 C03 C02 C05 C07 C01 C12 C13 C15 C14 C06 C08}"
for id in $ids; do
  s=$(date +%s)
  out=$(./vcheck $id --tier thorough 2>&1); rc=$?
  e=$(date +%s)
  echo "$id thorough exit=$rc wall=$((e-s))s $(echo "$out" | grep -c '^KNOWN-FINDING') known :: $(echo "$out" | grep -E '^C[0-9]+ tier' | cut -c1-120) $(echo "$out" | grep -E '^VIOLATION|HARNESS|NOTE' | head -4 | cut -c1-400)"
done
