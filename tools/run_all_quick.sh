#!/bin/bash
# Run every check's quick tier on /repo (sequentially), print one line per check.  usage: run_all_quick.sh [SEED] [IDs...]
cd "$(dirname "$0")/.."
seed="${1:-1}"; shift
ids="${@:-C01 C02 C03 C04 C05 C06 C07 C08 C09 C10 C11 C12 C13 C14 C15 C16}"
for id in $ids; do
  s=$(date +%s)
  out=$(VERIF_SEED=$seed ./vcheck $id --tier quick 2>&1); rc=$?
  e=$(date +%s)
  echo "$id seed=$seed exit=$rc wall=$((e-s))s $(echo "$out" | grep -c '^KNOWN-FINDING') known $(echo "$out" | grep -E '^VIOLATION|HARNESS' | head -3 | cut -c1-300)"
done
