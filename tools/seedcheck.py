#!/venv/bin/python
"""Run checks against a seeded change.
usage: seedcheck.py <dir with patch.diff [demo.py]> [--patch NAME] [--demo NAME] [--tests] CHECK [CHECK...]
Applies the patch to a scratch copy of /repo/src (never to /repo), runs the demo with and without the change,
optionally the repository tests on the copy, then each named check's quick tier against the copy."""
import argparse
import json
import os
import shutil
import subprocess
import sys
import tempfile

VERIF = os.path.dirname(os.path.dirname(os.path.abspath(__file__)))


def main():
    ap = argparse.ArgumentParser()
    ap.add_argument("dir")
    ap.add_argument("checks", nargs="*")
    ap.add_argument("--patch", default="patch.diff")
    ap.add_argument("--demo", default="demo.py")
    ap.add_argument("--tests", action="store_true")
    ap.add_argument("--tier", default="quick")
    ap.add_argument("--seed", default="1")
    a = ap.parse_args()
    d = tempfile.mkdtemp(prefix="verif_seed_")
    out = {"patch": os.path.join(a.dir, a.patch)}
    try:
        shutil.copytree("/repo/src", os.path.join(d, "src"))
        p = subprocess.run(["patch", "-p1", "-d", d, "-i", os.path.abspath(os.path.join(a.dir, a.patch))], capture_output=True, text=True)
        out["applies"] = p.returncode == 0
        if p.returncode != 0:
            out["patch_output"] = p.stdout[-500:] + p.stderr[-500:]
            print(json.dumps(out, indent=1))
            return 2
        demo = os.path.join(a.dir, a.demo)
        if os.path.exists(demo):
            for tag, src in (("demo_clean", "/repo/src"), ("demo_patched", os.path.join(d, "src"))):
                r = subprocess.run(["/venv/bin/python", demo], env=dict(os.environ, PYTHONPATH=src), capture_output=True, text=True,
                                   timeout=900, cwd=tempfile.gettempdir())
                out[tag] = r.returncode
        if a.tests:
            t = subprocess.run(["/venv/bin/python", "-m", "pytest", "-q", "-ra", "-p", "no:cacheprovider", "-n", "12", "tests", "tests_cffi",
                                "fuzz_tests/test_parsing.py"], cwd="/repo", env=dict(os.environ, PYTHONPATH=os.path.join(d, "src")),
                               capture_output=True, text=True)
            out["repo_tests"] = t.stdout.strip().splitlines()[-1] if t.stdout.strip() else t.stderr[-200:]
            out["repo_tests_failed"] = [l[:200] for l in t.stdout.splitlines() if l.startswith(("FAILED", "ERROR"))][:5]
        for chk in a.checks:
            r = subprocess.run([os.path.join(VERIF, "vcheck"), chk, "--tier", a.tier], capture_output=True, text=True,
                               env=dict(os.environ, VERIF_REPO_SRC=os.path.join(d, "src"), VERIF_EVIDENCE_DIR=os.path.join(d, "evidence"), VERIF_SEED=a.seed))
            viol = [l for l in r.stdout.splitlines() if l.startswith("VIOLATION")]
            out[chk] = {"exit": r.returncode, "violations": len(viol), "first": viol[0][:300] if viol else "",
                        "stderr_tail": r.stderr[-300:] if r.returncode == 2 else ""}
        print(json.dumps(out, indent=1))
        return 0
    finally:
        shutil.rmtree(d, ignore_errors=True)


if __name__ == "__main__":
    sys.exit(main())
