#!/venv/bin/python
"""Register a seeded change under /verif/seeded/<id>/.
usage: seed_add.py ID SRC_DIR K PROPERTY NEEDS CAUGHT_BY(comma list) MISSED_FIRST(yes/no) [HISTORY]
copies SRC_DIR/patchK.diff, demoK.py, notesK.md; confirms the demo both ways on scratch copies; writes meta.json
(repo_tests_with_change is left 'pending' for tools/seed_confirm.py)."""
import json
import os
import shutil
import subprocess
import sys
import tempfile

VERIF = os.path.dirname(os.path.dirname(os.path.abspath(__file__)))


def main():
    sid, src, k, prop, needs, caught, missed = sys.argv[1:8]
    history = sys.argv[8] if len(sys.argv) > 8 else ""
    d = os.path.join(VERIF, "seeded", sid)
    os.makedirs(d, exist_ok=True)
    shutil.copy(os.path.join(src, f"patch{k}.diff"), os.path.join(d, "patch.diff"))
    shutil.copy(os.path.join(src, f"demo{k}.py"), os.path.join(d, "demo.py"))
    if os.path.exists(os.path.join(src, f"notes{k}.md")):
        shutil.copy(os.path.join(src, f"notes{k}.md"), os.path.join(d, "notes_from_author.md"))
    tmp = tempfile.mkdtemp(prefix="verif_seedadd_")
    try:
        shutil.copytree("/repo/src", os.path.join(tmp, "src"))
        p = subprocess.run(["patch", "-p1", "-d", tmp, "-i", os.path.join(d, "patch.diff")], capture_output=True, text=True)
        applies = p.returncode == 0
        codes = {}
        for tag, s in (("clean", "/repo/src"), ("patched", os.path.join(tmp, "src"))):
            r = subprocess.run(["/venv/bin/python", os.path.join(d, "demo.py")], env=dict(os.environ, PYTHONPATH=s), capture_output=True,
                               text=True, timeout=900, cwd=tempfile.gettempdir())
            codes[tag] = r.returncode
    finally:
        shutil.rmtree(tmp, ignore_errors=True)
    rnd = {"d": 4, "e": 4, "f": 5, "g": 5}.get(sid[-1], 5)
    meta = {
        "id": sid,
        "property": prop,
        "origin": f"round {rnd}: written by an independent sub-agent that saw only the property text, its own scratch git worktree of /repo "
                  "and one-line descriptions of what the earlier seeded changes for the same property needed (so as to pick a different "
                  "mechanism); nothing from /verif. It was told to assume a strong randomized harness and to make the change need "
                  "something specific to manifest",
        "needs_to_manifest": needs,
        "confirmed": {"patch_applies_to_repo_HEAD": applies, "demo_exit_clean_tree": codes["clean"], "demo_exit_with_change": codes["patched"],
                      "repo_tests_with_change": "pending"},
        "ran": [f"tools/seedcheck.py <dir> {prop} --patch patch{k}.diff --demo demo{k}.py"],
        "caught_by_quick_checks": [c for c in caught.split(",") if c],
        "missed_at_first": missed == "yes",
        "history": history,
    }
    json.dump(meta, open(os.path.join(d, "meta.json"), "w"), indent=1)
    print(sid, "applies" if applies else "DOES NOT APPLY", codes)


if __name__ == "__main__":
    main()
