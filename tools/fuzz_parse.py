#!/venv/bin/python
"""Atheris target: parsers never raise; accepted text round-trips and means what the independent evaluator says.
usage: fuzz_parse.py CORPUS_DIR [libFuzzer options]"""
import sys

import atheris

with atheris.instrument_imports(include=["tensora", "parsita"]):
    from harness import bridge

    bridge.ensure_tensora()
    from harness.props import c12


def target(data):
    fdp = atheris.FuzzedDataProvider(data)
    text = fdp.ConsumeUnicodeNoSurrogates(256)
    res = c12.check_text({"text": text[:256], "kind": "arbitrary"})
    if res["fails"]:
        raise AssertionError(res["fails"][0]["bucket"] + " :: " + res["fails"][0]["detail"])


if __name__ == "__main__":
    atheris.Setup(sys.argv, target)
    atheris.Fuzz()
