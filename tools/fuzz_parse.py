#!/venv/bin/python
"""Atheris target: parsers never raise; accepted text round-trips and means what the independent evaluator says.
usage: fuzz_parse.py CORPUS_DIR [libFuzzer options]"""
import sys

import atheris

with atheris.instrument_imports(include=["tensora", "parsita"]):
    from harness import bridge

    bridge.ensure_tensora()
    from harness.props import c12


def report(case, res):
    """Save the failing *case* (not the raw bytes) so the parent can replay it without the fuzzer."""
    import hashlib
    import json
    import os

    out = os.environ.get("FUZZ_FOUND_DIR", ".")
    blob = json.dumps(case, sort_keys=True)
    with open(os.path.join(out, "found-" + hashlib.sha1(blob.encode()).hexdigest()[:12] + ".json"), "w") as fh:
        fh.write(blob)
    raise AssertionError(res["fails"][0]["bucket"] + " :: " + res["fails"][0]["detail"])


def target(data):
    fdp = atheris.FuzzedDataProvider(data)
    text = fdp.ConsumeUnicodeNoSurrogates(256)
    case = {"text": text[:256], "kind": "arbitrary"}
    res = c12.check_text(case)
    if res["fails"]:
        report(case, res)


def hypothesis_target():
    """Coverage-guided search through the structured sentence generators (Hypothesis strategies driven by
    libFuzzer's byte stream), so the fuzzer reaches long valid sentences instead of dying in the tokenizer."""
    import hypothesis
    from hypothesis import strategies as st

    strat = st.one_of(c12.sentences("thorough"), c12.arbitrary_text("thorough"), c12.invalid_sentences("thorough"),
                      c12.trees("thorough"))

    @hypothesis.settings(database=None, deadline=None, suppress_health_check=list(hypothesis.HealthCheck))
    @hypothesis.given(strat)
    def t(case):
        res = c12.check_text(case)
        if res["fails"]:
            report(case, res)

    return t.hypothesis.fuzz_one_input


if __name__ == "__main__":
    import os

    if os.environ.get("FUZZ_MODE") == "hypothesis":
        atheris.Setup(sys.argv, hypothesis_target())
    else:
        atheris.Setup(sys.argv, target)
    atheris.Fuzz()
