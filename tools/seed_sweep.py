#!/venv/bin/python
"""Re-run, for every seeded change, the quick tier of the check(s) recorded as catching it, against a scratch copy of
/repo/src with the change applied.  Writes seeded/SWEEP.json.  usage: seed_sweep.py [-j N] [ID ...]"""
import json
import os
import subprocess
import sys
import time
from concurrent.futures import ThreadPoolExecutor

VERIF = os.path.dirname(os.path.dirname(os.path.abspath(__file__)))


def one(sid):
    d = os.path.join(VERIF, "seeded", sid)
    meta = json.load(open(os.path.join(d, "meta.json")))
    checks = meta["caught_by_quick_checks"][:1] or [meta["property"]]
    t0 = time.time()
    r = subprocess.run([os.path.join(VERIF, "tools", "seedcheck.py"), d, *checks], capture_output=True, text=True)
    try:
        out = json.loads(r.stdout)
        res = {c: out[c]["exit"] for c in checks}
        first = {c: out[c]["first"][:160] for c in checks}
    except Exception:  # noqa: BLE001
        res, first = {"error": r.stdout[-300:] + r.stderr[-300:]}, {}
    return sid, {"checks": res, "first": first, "wall_s": round(time.time() - t0)}


def main():
    args = sys.argv[1:]
    j = 2
    if "-j" in args:
        k = args.index("-j")
        j = int(args[k + 1])
        del args[k:k + 2]
    ids = args or sorted(x for x in os.listdir(os.path.join(VERIF, "seeded")) if os.path.exists(os.path.join(VERIF, "seeded", x, "meta.json")))
    results = {}
    path = os.path.join(VERIF, "seeded", "SWEEP.json")
    if args and os.path.exists(path):
        results = json.load(open(path)).get("results", {})
    with ThreadPoolExecutor(j) as ex:
        for sid, res in ex.map(one, ids):
            results[sid] = res
            print(sid, res["checks"], res["wall_s"], flush=True)
            head = subprocess.run(["git", "-C", VERIF, "rev-parse", "--short", "HEAD"], capture_output=True, text=True).stdout.strip()
            json.dump({"verif_commit_when_run": head, "results": dict(sorted(results.items()))}, open(path, "w"), indent=1)
    missed = [s for s, r in results.items() if not any(v == 1 for v in r["checks"].values())]
    print("not caught by the quick tier:", missed)


if __name__ == "__main__":
    main()
