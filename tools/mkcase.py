"""Build a kernel-case replay file from text.

usage: mkcase.py PROP OUT 'o(i) = a(i,j) * b(j)' 'o:s,a:ds,b:d' 'i=2,j=3' 'a={(0,1):2.0,(1,0):3.0};b={(0,):1,(2,):4}' [capacity]
"""
import ast, json, sys, os
sys.path.insert(0, os.path.dirname(os.path.dirname(os.path.abspath(__file__))))
from harness import bridge, cases as C, exprs as X

def make_case(text, formats, sizes, doks, capacity=None):
    bridge.ensure_tensora()
    from tensora.expression import parse_assignment
    asg = parse_assignment(text).unwrap()
    tree = X.from_tensora(asg.expression)
    target = [asg.target.name, list(asg.target.indexes)]
    names = [target[0]] + [n for n in dict.fromkeys(t[1] for t in X.tensors(tree))]
    fm = {n: formats.get(n, "d" * (len(target[1]) if n == target[0] else len(next(t for t in X.tensors(tree) if t[1] == n)[2]))) for n in names}
    inputs = {}
    for n in names[1:]:
        first = next(t for t in X.tensors(tree) if t[1] == n)
        dims = tuple(sizes[i] for i in first[2])
        m, o = C.fmt_parts(fm[n])
        levels, vals = C.levels_from_dok(doks.get(n, {}), dims, m, o)
        inputs[n] = {"levels": levels, "vals": vals}
    return {"target": target, "expr": tree, "assignment": X.assignment_text(target, tree), "formats": fm,
            "sizes": sizes, "inputs": inputs, "value_class": "exact", "capacity": capacity}

if __name__ == "__main__":
    prop, out, text, fmts, sizes, data = sys.argv[1:7]
    cap = int(sys.argv[7]) if len(sys.argv) > 7 else None
    formats = dict(kv.split(":") for kv in fmts.split(",") if kv)
    sz = {k: int(v) for k, v in (kv.split("=") for kv in sizes.split(",") if kv)}
    doks = {}
    for part in data.split(";"):
        if part.strip():
            n, d = part.split("=", 1)
            doks[n.strip()] = ast.literal_eval(d)
    case = make_case(text, formats, sz, doks, cap)
    json.dump({"property": prop, "kind": "case", "case": case}, open(out, "w"), indent=1, sort_keys=True)
    print(out)
