#!/venv/bin/python
"""Confirm, for seeded changes whose meta.json does not yet record a clean run of the repository's own suite,
that the suite still passes with the change applied (scratch copy of /repo/src; never /repo itself).
usage: seed_confirm.py [--all] [ID ...]     (default: every seeded/<id> whose entry is 'pending' or reports a failure)
A failing test is re-run alone three times on the copy; only a test that fails every time counts as failing."""
import json
import os
import shutil
import subprocess
import sys
import tempfile

VERIF = os.path.dirname(os.path.dirname(os.path.abspath(__file__)))
PYTEST = ["/venv/bin/python", "-m", "pytest", "-q", "-ra", "-p", "no:cacheprovider"]


def patch_name(meta):
    for r in meta.get("ran", []):
        parts = r.split()
        if "--patch" in parts:
            return parts[parts.index("--patch") + 1]
    return "patch.diff"


def confirm(sid):
    d = os.path.join(VERIF, "seeded", sid)
    meta = json.load(open(os.path.join(d, "meta.json")))
    pname = patch_name(meta)
    if not os.path.exists(os.path.join(d, pname)):
        pname = "patch.diff"
    tmp = tempfile.mkdtemp(prefix="verif_seedc_")
    try:
        shutil.copytree("/repo/src", os.path.join(tmp, "src"))
        p = subprocess.run(["patch", "-p1", "-d", tmp, "-i", os.path.join(d, pname)], capture_output=True, text=True)
        if p.returncode != 0:
            return "patch does not apply: " + (p.stdout + p.stderr)[-200:]
        env = dict(os.environ, PYTHONPATH=os.path.join(tmp, "src"))
        t = subprocess.run(PYTEST + ["-n", "12", "tests", "tests_cffi", "fuzz_tests/test_parsing.py"], cwd="/repo", env=env,
                           capture_output=True, text=True)
        last = t.stdout.strip().splitlines()[-1] if t.stdout.strip() else t.stderr[-200:]
        failed = [l.split()[1] for l in t.stdout.splitlines() if l.startswith(("FAILED", "ERROR")) and len(l.split()) > 1]
        really = []
        for f in failed[:10]:
            fails = 0
            for _ in range(3):
                r = subprocess.run(PYTEST + [f], cwd="/repo", env=env, capture_output=True, text=True)
                fails += r.returncode != 0
            if fails == 3:
                really.append(f)
        if failed and not really:
            last += " (failed only under parallel load, passed 3/3 alone: %s)" % ", ".join(failed[:3])
        elif really:
            last += " REPRODUCIBLE FAILURES: %s" % ", ".join(really)
        return last
    finally:
        shutil.rmtree(tmp, ignore_errors=True)


def main():
    args = [a for a in sys.argv[1:] if not a.startswith("--")]
    todo = []
    for sid in sorted(os.listdir(os.path.join(VERIF, "seeded"))):
        mp = os.path.join(VERIF, "seeded", sid, "meta.json")
        if not os.path.exists(mp):
            continue
        meta = json.load(open(mp))
        cur = str(meta.get("confirmed", {}).get("repo_tests_with_change", "pending"))
        if args:
            if sid in args:
                todo.append(sid)
        elif "--all" in sys.argv or cur == "pending" or (" failed" in cur and "passed 3/3 alone" not in cur):
            todo.append(sid)
    for sid in todo:
        res = confirm(sid)
        mp = os.path.join(VERIF, "seeded", sid, "meta.json")
        meta = json.load(open(mp))
        meta.setdefault("confirmed", {})["repo_tests_with_change"] = res
        json.dump(meta, open(mp, "w"), indent=1)
        print(sid, res, flush=True)


if __name__ == "__main__":
    main()
