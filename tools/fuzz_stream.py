#!/venv/bin/python
"""Atheris target for any Hypothesis stream of a property module: libFuzzer's byte stream drives the stream's
*structured* generator (``test.hypothesis.fuzz_one_input``), tensora is instrumented for coverage, and the
stream's own check (with its explicit oracle) runs inside the target.  A failing *case* (not the bytes) is saved
as JSON in $FUZZ_FOUND_DIR so that the parent re-checks and shrinks it without the fuzzer.
usage: fuzz_stream.py MODULE STREAM TIER CORPUS_DIR [libFuzzer options]"""
import hashlib
import json
import os
import sys

import atheris

modname, stream, tier = sys.argv[1:4]
argv = [sys.argv[0]] + sys.argv[4:]

with atheris.instrument_imports(include=["tensora"]):
    from harness import bridge

    bridge.ensure_tensora()
    import importlib

    mod = importlib.import_module(modname)

FOUND = os.environ.get("FUZZ_FOUND_DIR", ".")
MAX_FOUND = int(os.environ.get("FUZZ_MAX_FOUND", "40"))
seen_buckets = {}


def main():
    import hypothesis

    spec = mod.STREAMS[stream]
    strategy = spec["strategy"](tier)
    check = spec["check"]
    setup = spec.get("setup")
    ctx = setup(tier, 0, 0) if setup else None

    @hypothesis.settings(database=None, deadline=None, suppress_health_check=list(hypothesis.HealthCheck))
    @hypothesis.given(strategy)
    def t(case):
        res = check(case, ctx) if ctx is not None else check(case)
        for f in res["fails"]:
            # collect mode: keep fuzzing; save up to three cases per bucket
            n = seen_buckets.get(f["bucket"], 0)
            if n < 3 and sum(seen_buckets.values()) < MAX_FOUND:
                seen_buckets[f["bucket"]] = n + 1
                blob = json.dumps(case, default=str)
                with open(os.path.join(FOUND, "found-" + hashlib.sha1(blob.encode()).hexdigest()[:12] + ".json"), "w") as fh:
                    fh.write(blob)

    atheris.Setup(argv, t.hypothesis.fuzz_one_input)
    atheris.Fuzz()


if __name__ == "__main__":
    main()
