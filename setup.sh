#!/bin/bash
# Offline setup: nothing is fetched. Installs hypothesis into /venv if missing, builds the LD_PRELOAD interposer.
set -e
cd "$(dirname "${BASH_SOURCE[0]}")"
/venv/bin/python -c "import hypothesis" 2>/dev/null || /venv/bin/pip install -q --no-index --find-links /opt/veriftools/wheels hypothesis
mkdir -p build .deps evidence
if [ -f csrc/interpose.c ]; then gcc -O1 -shared -fPIC -o build/libinterpose.so csrc/interpose.c -ldl -lpthread; fi
if [ -f csrc/guardalloc.c ]; then gcc -O1 -shared -fPIC -o build/libguardalloc.so csrc/guardalloc.c; fi
/venv/bin/python -c "import atheris" 2>/dev/null || /venv/bin/pip install -q --no-index --find-links /opt/veriftools/wheels --target .deps atheris 2>/dev/null || echo "atheris not installed (optional)"
echo setup ok
