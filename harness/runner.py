"""Runner: seeds, tiers, sharded Hypothesis generation in collect mode, buckets, shrinking,
known findings, evidence (DESIGN.md §2.5-2.7)."""
from __future__ import annotations

import collections
import fnmatch
import hashlib
import importlib
import json
import multiprocessing as mp
import os
import sys
import time
import traceback

VERIF = os.path.dirname(os.path.dirname(os.path.abspath(__file__)))
N_WORKERS = int(os.environ.get("VERIF_WORKERS", "16"))


def seed_from_env():
    try:
        return int(os.environ.get("VERIF_SEED", "1"))
    except ValueError:
        return 1


def jhash(obj):
    return hashlib.sha1(json.dumps(obj, sort_keys=True, default=str).encode()).hexdigest()[:16]


# ------------------------------------------------------------------------------- results
def fail(bucket, detail="", **info):
    return {"bucket": bucket, "detail": str(detail)[:600], "info": info}


def result(fails=(), labels=(), nontrivial=False, key=None, sample=None, extra=None):
    return {
        "fails": list(fails),
        "labels": sorted(labels),
        "nontrivial": bool(nontrivial),
        "key": key,
        "sample": sample,
        "extra": extra or {},
    }


class Stats:
    """Mergeable aggregate of case results."""

    def __init__(self):
        self.evaluations = 0
        self.nontrivial_keys = set()
        self.classes = collections.Counter()
        self.samples = []
        self.buckets = {}  # bucket -> {"count": n, "examples": [(case, detail, info)]}
        self.counters = collections.Counter()

    def add(self, case, res, max_samples=6):
        self.evaluations += 1
        for l in res["labels"]:
            self.classes[l] += 1
        if res["nontrivial"]:
            k = res["key"] or jhash(case)
            if k not in self.nontrivial_keys:
                self.nontrivial_keys.add(k)
                if len(self.samples) < max_samples and res["sample"] is not None:
                    self.samples.append(res["sample"])
        for k, v in res["extra"].items():
            self.counters[k] += v
        for f in res["fails"]:
            b = self.buckets.setdefault(f["bucket"], {"count": 0, "examples": []})
            b["count"] += 1
            if len(b["examples"]) < 3:
                b["examples"].append((case, f["detail"], f["info"]))

    def keep_buckets(self, pred):
        """Drop failure buckets that are another property's business."""
        self.buckets = {k: v for k, v in self.buckets.items() if pred(k)}
        return self

    def merge(self, other):
        self.evaluations += other.evaluations
        self.nontrivial_keys |= other.nontrivial_keys
        self.classes.update(other.classes)
        self.counters.update(other.counters)
        for s in other.samples:
            if len(self.samples) < 8:
                self.samples.append(s)
        for k, b in other.buckets.items():
            mine = self.buckets.setdefault(k, {"count": 0, "examples": []})
            mine["count"] += b["count"]
            for ex in b["examples"]:
                if len(mine["examples"]) < 3:
                    mine["examples"].append(ex)


# --------------------------------------------------------------------- sharded generation
def _shard_entry(args):
    modname, stream, tier, seed, shard, n_cases = args
    os.environ.setdefault("PYTHONHASHSEED", "0")
    try:
        import hypothesis
        from hypothesis import HealthCheck, Phase, given, settings

        mod = importlib.import_module(modname)
        strategy = mod.STREAMS[stream]["strategy"](tier)
        check = mod.STREAMS[stream]["check"]
        stats = Stats()
        setup = mod.STREAMS[stream].get("setup")
        ctx = setup(tier, seed, shard) if setup else None

        @hypothesis.seed(seed * 100003 + shard * 7919 + _stream_salt(stream))
        @settings(
            max_examples=n_cases,
            database=None,
            deadline=None,
            derandomize=False,
            phases=[Phase.generate],
            suppress_health_check=list(HealthCheck),
            report_multiple_bugs=False,
        )
        @given(strategy)
        def body(case):
            res = check(case, ctx) if ctx is not None else check(case)
            stats.add(case, res)

        body()
        teardown = mod.STREAMS[stream].get("teardown")
        if teardown and ctx is not None:
            teardown(ctx)
        return ("ok", stats)
    except BaseException as e:  # harness error inside a shard
        return ("error", f"{type(e).__name__}: {e}\n{traceback.format_exc()}")


def _stream_salt(stream):
    return int(hashlib.sha1(stream.encode()).hexdigest()[:6], 16)


def run_stream(modname, stream, tier, seed, n_cases, shards=None):
    """Run ``n_cases`` generated cases of a stream over worker processes; returns merged Stats."""
    shards = shards or min(N_WORKERS, max(1, n_cases // 20))
    per = max(1, n_cases // shards)
    jobs = [(modname, stream, tier, seed, s, per) for s in range(shards)]
    total = Stats()
    for status, payload in _pmap(_shard_entry, jobs, min(shards, N_WORKERS)):
        if status != "ok":
            raise HarnessFailure(payload)
        total.merge(payload)
    return total


def _pmap(fn, jobs, procs):
    """Unordered parallel map over forked worker processes.  Unlike multiprocessing.Pool, a worker that dies (killed
    by the kernel for using too much memory, a segfault in a native library) does not leave the parent waiting
    forever: it is a harness failure (exit 2), never a verdict."""
    import concurrent.futures as cf

    if not jobs:
        return
    with cf.ProcessPoolExecutor(max_workers=max(1, procs), mp_context=mp.get_context("fork")) as ex:
        futs = [ex.submit(fn, j) for j in jobs]
        try:
            for f in cf.as_completed(futs):
                yield f.result()
        except cf.process.BrokenProcessPool as e:
            raise HarnessFailure(f"a worker process of the harness died (out of memory? crash in a native library?): {e}")


def generate_cases(strategy, n, seed):
    """Draw ``n`` examples of a strategy with a fixed seed (Hypothesis is the only source of randomness)."""
    import hypothesis
    from hypothesis import HealthCheck, Phase, given, settings

    out = []

    @hypothesis.seed(seed)
    @settings(max_examples=n, database=None, deadline=None, derandomize=False, phases=[Phase.generate],
              suppress_health_check=list(HealthCheck), report_multiple_bugs=False)
    @given(strategy)
    def body(x):
        out.append(x)

    body()
    return out


def run_tasks(fn, tasks, procs=None):
    """Plain parallel map for enumerated (non-Hypothesis) sweeps.  fn(task) -> Stats."""
    procs = procs or N_WORKERS
    total = Stats()
    for status, payload in _pmap(_task_entry, [(fn, t) for t in tasks], procs):
        if status != "ok":
            raise HarnessFailure(payload)
        total.merge(payload)
    return total


def _task_entry(args):
    fn, task = args
    try:
        return ("ok", fn(task))
    except BaseException as e:
        return ("error", f"{type(e).__name__}: {e}\n{traceback.format_exc()}")


class HarnessFailure(Exception):
    pass


# ------------------------------------------------------------------ coverage-guided generation
def coverage_guided(chk, modname, stream, seconds, procs=4, max_len=4096, shrink=None, kind="case"):
    """Thorough tier: Atheris/libFuzzer drives the stream's *structured* Hypothesis generator with coverage
    feedback from the instrumented tensora package (tools/fuzz_stream.py); the stream's own check is the oracle
    inside the target.  Cases the target saved are re-checked here, in a fresh context, and absorbed like any
    generated case.  A missing atheris is a note, not an error (the campaign is an addition to the seeded runs)."""
    import re
    import shutil
    import subprocess

    from . import bridge

    script = os.path.join(VERIF, "tools", "fuzz_stream.py")
    outdir = os.path.join(VERIF, "build", "atheris", f"{chk.prop}-{stream}")
    shutil.rmtree(outdir, ignore_errors=True)
    os.makedirs(outdir)
    env = dict(os.environ)
    env["PYTHONPATH"] = os.pathsep.join([VERIF, bridge.REPO_SRC, os.path.join(VERIF, ".deps"), env.get("PYTHONPATH", "")])
    env["FUZZ_FOUND_DIR"] = outdir
    env.setdefault("PYTHONHASHSEED", "0")
    plist = []
    for k in range(procs):
        corpus = os.path.join(outdir, f"corpus{k}")
        os.makedirs(corpus)
        cmd = [sys.executable, script, modname, stream, chk.tier, corpus, f"-max_total_time={seconds}",
               f"-seed={chk.seed * 1000 + k + 1}", f"-max_len={max_len}", "-len_control=0", f"-artifact_prefix={outdir}/crash{k}-", "-rss_limit_mb=4096"]
        plist.append(subprocess.Popen(cmd, env=env, stdout=subprocess.PIPE, stderr=subprocess.STDOUT, text=True))
    total = 0
    cov = 0
    for p in plist:
        out, _ = p.communicate()
        if "No module named 'atheris'" in out:
            chk.notes.append(f"atheris is not installed (.deps missing): coverage-guided campaign for {stream} skipped")
            return 0
        m = re.findall(r"stat::number_of_executed_units: (\d+)", out) or re.findall(r"#(\d+)\s+DONE", out)
        if m:
            total += int(m[-1])
        c = re.findall(r"cov: (\d+)", out)
        if c:
            cov = max(cov, int(c[-1]))
        if p.returncode != 0 and not m:
            chk.notes.append(f"coverage-guided campaign for {stream}: a fuzzer process ended with status {p.returncode}: {out[-300:]}")
    mod = importlib.import_module(modname)
    spec = mod.STREAMS[stream]
    found = []
    for fn in sorted(os.listdir(outdir)):
        if fn.startswith("found-"):
            with open(os.path.join(outdir, fn)) as fh:
                found.append(json.load(fh))
    stats = Stats()
    if found:
        setup = spec.get("setup")
        ctx = setup(chk.tier, chk.seed, 99) if setup else None
        for case in found:
            stats.add(case, spec["check"](case, ctx) if ctx is not None else spec["check"](case))
        if spec.get("teardown") and ctx is not None:
            spec["teardown"](ctx)
    chk.absorb(stats, shrink=shrink, kind=kind)
    chk.coverage_extra.setdefault("coverage_guided", {})[stream] = {"executions": total, "edges_covered": cov, "cases_saved": len(found),
                                                                     "processes": procs, "seconds": seconds}
    shutil.rmtree(outdir, ignore_errors=True)
    return total


# --------------------------------------------------------------------------- known findings
def load_known(prop):
    path = os.path.join(VERIF, "known_findings.json")
    if not os.path.exists(path):
        return []
    with open(path) as fh:
        data = json.load(fh)
    return [e for e in data["findings"] if prop in e["properties"]]


def finding_matches(entry, prop, bucket, case, info):
    from . import findings

    m = entry["match"].get(prop)
    if m is None:
        return False
    pats = m["bucket"] if isinstance(m["bucket"], list) else [m["bucket"]]
    if not any(fnmatch.fnmatchcase(bucket, p) for p in pats):
        return False
    sig = m.get("signature")
    if sig:
        return bool(findings.SIGNATURES[sig](case, info))
    return True


# --------------------------------------------------------------------------------- shrinking
def minimise(case, candidates, still_fails, max_evals=250):
    """Greedy structural ddmin: repeatedly take the first candidate that still fails."""
    evals = 0
    progress = True
    while progress and evals < max_evals:
        progress = False
        for cand in candidates(case):
            evals += 1
            if evals > max_evals:
                break
            try:
                ok = still_fails(cand)
            except Exception:
                ok = False
            if ok:
                case = cand
                progress = True
                break
    return case, evals


# --------------------------------------------------------------------------------- the check
class Check:
    """Per-property driver.  A property module provides:
    PROP, LEVEL, RULE, ASSUMPTIONS, run(check) and replay(payload) -> list of fails."""

    def __init__(self, mod, tier, seed):
        self.mod = mod
        self.prop = mod.PROP
        self.tier = tier
        self.seed = seed
        self.t0 = time.time()
        self.stats = Stats()
        self.violations = []
        self.known_lines = []
        self.excluded_known = collections.Counter()
        self.notes = []
        self.coverage_extra = {}
        self.known = load_known(self.prop)

    # -- replays and witnesses -------------------------------------------------------------
    def replay_file(self, path):
        with open(path) as fh:
            payload = json.load(fh)
        return payload, self.mod.replay(payload)

    def run_replays(self):
        d = os.path.join(VERIF, "replays", self.prop)
        files = sorted(os.listdir(d)) if os.path.isdir(d) else []
        witness_of = {}
        for e in self.known:
            for w in e.get("witnesses", {}).get(self.prop, []):
                witness_of[os.path.normpath(os.path.join(VERIF, w))] = e
        n = 0
        for fn in files:
            if not fn.endswith(".json"):
                continue
            path = os.path.join(d, fn)
            payload, fails = self.replay_file(path)
            n += 1
            entry = witness_of.get(os.path.normpath(path))
            case = payload.get("case")
            if entry is not None and entry["status"] == "open":
                hit = [f for f in fails if finding_matches(entry, self.prop, f["bucket"], case, f["info"])]
                other = [f for f in fails if f not in hit]
                if hit:
                    self.known_lines.append(
                        f"KNOWN-FINDING: property={self.prop} {entry['id']} {entry['what']} "
                        f"[witness {os.path.relpath(path, VERIF)}: {hit[0]['bucket']}]"
                    )
                    self.excluded_known[entry["id"]] += 1
                else:
                    self.notes.append(
                        f"known finding {entry['id']} no longer reproduces on its witness {fn}"
                    )
                fails = other
            for f in fails:
                if self._excluded(f["bucket"], case, f["info"]):
                    continue
                self.violations.append((f["bucket"], os.path.relpath(path, VERIF), f["detail"]))
        self.coverage_extra["replays_run"] = n

    def _excluded(self, bucket, case, info):
        for e in self.known:
            if e["status"] == "open" and finding_matches(e, self.prop, bucket, case, info):
                self.excluded_known[e["id"]] += 1
                return True
        return False

    # -- generated results -----------------------------------------------------------------
    def absorb(self, stats, shrink=None, kind="case"):
        """Merge a Stats; turn unexplained buckets into violations (shrunk, with replay files)."""
        buckets = stats.buckets
        stats_no_buckets = stats
        self.stats.merge(stats_no_buckets)
        for bucket, b in sorted(buckets.items()):
            examples = b["examples"]
            unexplained = [ex for ex in examples if not self._match_known(bucket, ex)]
            if not unexplained:
                # every example matched a known finding; count the whole bucket under it
                for e in self.known:
                    if e["status"] == "open" and finding_matches(e, self.prop, bucket, examples[0][0], examples[0][2]):
                        self.excluded_known[e["id"]] += b["count"]
                        line = f"KNOWN-FINDING: property={self.prop} {e['id']} {e['what']}"
                        if not any(l.startswith(line) for l in self.known_lines):
                            self.known_lines.append(line + f" [{b['count']} generated case(s): {bucket}]")
                        break
                continue
            case, detail, info = unexplained[0]
            if shrink is not None:
                try:
                    case = shrink(case, bucket)
                except Exception as e:  # shrinking is best effort
                    self.notes.append(f"shrink failed for {bucket}: {e}")
            path = self.write_violation(bucket, kind, case, detail)
            self.violations.append((bucket, path, detail))

    def _match_known(self, bucket, ex):
        case, _detail, info = ex
        return any(
            e["status"] == "open" and finding_matches(e, self.prop, bucket, case, info) for e in self.known
        )

    def write_violation(self, bucket, kind, case, detail):
        d = os.path.join(VERIF, "violations", self.prop)
        os.makedirs(d, exist_ok=True)
        name = f"{jhash([bucket, case])}.json"
        path = os.path.join(d, name)
        with open(path, "w") as fh:
            json.dump(
                {"property": self.prop, "kind": kind, "bucket": bucket, "detail": detail, "case": case,
                 "seed": self.seed, "tier": self.tier},
                fh, indent=1, sort_keys=True, default=str,
            )
        return os.path.relpath(path, VERIF)

    # -- finish ------------------------------------------------------------------------------
    def finish(self, health=None):
        mod = self.mod
        wall = time.time() - self.t0
        cov = {
            "evaluations": int(self.stats.evaluations),
            "distinct_nontrivial": len(self.stats.nontrivial_keys),
            "rule": mod.RULE,
            "samples": self.stats.samples[:8],
            "classes": dict(sorted(self.stats.classes.items())),
            "counters": dict(sorted(self.stats.counters.items())),
            "excluded_known": dict(self.excluded_known),
            "failure_buckets": {k: v["count"] for k, v in sorted(self.stats.buckets.items())},
            "notes": self.notes,
        }
        cov.update(self.coverage_extra)
        if mod.LEVEL == "translation_validation":
            cov.setdefault("programs", cov.get("programs", int(self.stats.evaluations)))
            cov.setdefault("disagreements_checked", int(self.stats.counters.get("comparisons", 0)))
        ev = {
            "property_id": self.prop,
            "tier": self.tier,
            "seed": int(self.seed),
            "level": mod.LEVEL,
            "coverage": cov,
            "assumptions": list(mod.ASSUMPTIONS),
            "wall_s": round(wall, 2),
            "violations": len(self.violations),
        }
        # runs against a scratch copy of the sources (mutants, seeded changes) must not overwrite the evidence
        # of the real tree
        evdir = os.environ.get("VERIF_EVIDENCE_DIR") or os.path.join(VERIF, "evidence")
        os.makedirs(evdir, exist_ok=True)
        with open(os.path.join(evdir, f"{self.prop}.json"), "w") as fh:
            json.dump(ev, fh, indent=1, sort_keys=True, default=str)
        for line in self.known_lines:
            print(line)
        for n in self.notes:
            print(f"NOTE: {n}")
        print(
            f"{self.prop} tier={self.tier} seed={self.seed} evaluations={cov['evaluations']} "
            f"distinct_nontrivial={cov['distinct_nontrivial']} wall={wall:.1f}s"
        )
        if self.violations:
            seen = set()
            for bucket, path, detail in self.violations:
                if (bucket, path) in seen:
                    continue
                seen.add((bucket, path))
                print(f"VIOLATION property={self.prop} replay={path} bucket={bucket} :: {detail[:300]}")
            return 1
        if health:
            problems = health(cov)
            if problems:
                for p in problems:
                    print(f"HARNESS-HEALTH: {p}", file=sys.stderr)
                return 2
        return 0


def main(argv=None):
    import argparse

    ap = argparse.ArgumentParser()
    ap.add_argument("prop")
    ap.add_argument("--tier", default=os.environ.get("VERIF_TIER", "quick"), choices=["quick", "thorough"])
    ap.add_argument("--replay")
    ap.add_argument("--seed", type=int, default=None)
    a = ap.parse_args(argv)
    seed = a.seed if a.seed is not None else seed_from_env()
    os.environ.setdefault("PYTHONHASHSEED", "0")
    try:
        from . import bridge

        bridge.ensure_tensora()
        mod = importlib.import_module(f"harness.props.{a.prop.lower()}")
        chk = Check(mod, a.tier, seed)
        if a.replay:
            payload, fails = chk.replay_file(a.replay)
            case = payload.get("case")
            bad = [f for f in fails if not chk._excluded(f["bucket"], case, f["info"])]
            for f in fails:
                print(("FAIL " if f in bad else "KNOWN ") + f["bucket"] + " :: " + f["detail"])
            if bad:
                print(f"VIOLATION property={chk.prop} replay={a.replay}")
                return 1
            print("replay passes")
            return 0
        chk.run_replays()
        mod.run(chk)
        return chk.finish(getattr(mod, "health", None))
    except (HarnessFailure, bridge.HarnessError) as e:
        print(f"HARNESS-ERROR: {e}", file=sys.stderr)
        return 2
    except Exception:
        traceback.print_exc()
        print("HARNESS-ERROR: unexpected exception in the harness", file=sys.stderr)
        return 2


if __name__ == "__main__":
    sys.exit(main())
