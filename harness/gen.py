"""Hypothesis strategies for kernel cases (DESIGN.md §2.1).  Everything is built by construction;
no assume()/filter."""
from __future__ import annotations

import itertools

from hypothesis import strategies as st

from . import cases as C
from . import exprs as X

IDX = ["i", "j", "k", "l"]
NAMES = ["a", "b", "c", "d", "e"]

INT_LITS = [0, 1, 2, 3, 7]
FLOAT_LITS = ["0.0", "0.5", "1.5", "2.0", "0.25", "12.5E-1", "1e0", "3.0", "0.5", "1.5", "2.0",
              "0.30000000000000004", "3.141592653589793", "0.1"]  # the last three need up to 17 significant digits

ALL_PERMS = {n: list(itertools.permutations(range(n))) for n in range(5)}


@st.composite
def formats(draw, order, sparse_bias=0.5):
    modes = tuple(draw(st.sampled_from("ds" if sparse_bias >= 0.5 else "dds")) for _ in range(order))
    if order <= 1:
        ordering = tuple(range(order))
    else:
        perms = ALL_PERMS[order]
        # identity at ~40 %, other permutations share the rest (3-cycles included for order 3)
        if draw(st.integers(0, 9)) < 4:
            ordering = perms[0]
        else:
            ordering = draw(st.sampled_from(perms[1:]))
    return C.fmt_text(modes, ordering)


@st.composite
def expr_trees(draw, max_leaves=5, orders=None, literal_rate=15, big_literals=False, ops="+-**",
               order_choices=(0, 1, 1, 2, 2, 2, 3), constant_pairs=False):
    """Random binary tree over tensor/literal leaves.  ``orders`` (dict) is filled with tensor orders."""
    n = draw(st.integers(1, max_leaves))
    leaves = []
    for _ in range(n):
        if draw(st.integers(0, 99)) < literal_rate:
            if draw(st.booleans()):
                if big_literals and draw(st.integers(0, 3)) == 0:
                    leaves.append(["i", draw(st.sampled_from([2**31 - 1, 2**31, 65536, 3000000000, 4294967296, 2**63, 10**40, 10**308, 10**309, 10**400]))])
                else:
                    leaves.append(["i", draw(st.sampled_from(INT_LITS))])
            else:
                leaves.append(["f", draw(st.sampled_from(FLOAT_LITS))])
        else:
            name = draw(st.sampled_from(NAMES[:4]))
            if name not in orders:
                orders[name] = draw(st.sampled_from(list(order_choices)))
            k = orders[name]
            idxs = list(draw(st.permutations(IDX)))[:k]
            leaves.append(["t", name, idxs])
    if constant_pairs and draw(st.integers(0, 7)) == 0:
        # two literals as direct siblings of one operator (a constant sub-expression), with magnitudes whose product or
        # sum leaves the double range or the int32 range
        a, b = (draw(st.sampled_from([["f", "1e200"], ["f", "1e308"], ["f", "1.7976931348623157e308"], ["f", "1e-200"],
                                      ["f", "5e-324"], ["i", 65536], ["i", 2**31 - 1], ["f", "2.5"], ["i", 3]])) for _ in range(2))
        leaves.insert(draw(st.integers(0, len(leaves))), [draw(st.sampled_from("*+-")), a, b])
    if not any(l[0] == "t" for l in leaves):
        # make sure at least one tensor is present most of the time
        if draw(st.integers(0, 9)) < 8:
            name = "a"
            orders.setdefault(name, draw(st.sampled_from([0, 1, 2])))
            leaves[0] = ["t", name, list(draw(st.permutations(IDX)))[: orders[name]]]

    def build(ls):
        if len(ls) == 1:
            return ls[0]
        k = draw(st.integers(1, len(ls) - 1))
        op = draw(st.sampled_from(ops))
        return [op, build(ls[:k]), build(ls[k:])]

    return build(leaves)


def alias_classes(tree, target_idx):
    """Union-find over indexes: two indexes are aliased when they address the same dimension of a
    tensor that is used more than once."""
    parent = {}

    def find(x):
        parent.setdefault(x, x)
        while parent[x] != x:
            parent[x] = parent[parent[x]]
            x = parent[x]
        return x

    def union(a, b):
        parent[find(a)] = find(b)

    first = {}
    for t in X.tensors(tree):
        for i in t[2]:
            find(i)
        if t[1] in first:
            for a, b in zip(first[t[1]][2], t[2]):
                union(a, b)
        else:
            first[t[1]] = t
    for i in target_idx:
        find(i)
    classes = {}
    for i in parent:
        classes.setdefault(find(i), []).append(i)
    return list(classes.values())


DIM_CHOICES = [0, 1, 1, 2, 2, 2, 2, 3, 3, 3, 3, 3, 4, 4, 2, 3]


@st.composite
def stored_tensor(draw, dims, fmt, value_class="exact", density=None):
    """A level structure for the given dims/format: per compressed level and parent position an
    arbitrary strictly increasing subset (empty segments, full segments, empty tensors all occur);
    dense levels full; explicit zeros possible."""
    modes, ordering = C.fmt_parts(fmt)
    ldims = [dims[d] for d in ordering]
    levels = []
    n = 1
    dens = density if density is not None else draw(st.sampled_from([0, 1, 2, 2, 2, 3, 3, 3, 3, 4]))
    for l, md in enumerate(modes):
        d = ldims[l]
        if md == "d":
            levels.append(None)
            n *= d
        else:
            pos = [0]
            crd = []
            for _p in range(n):
                if d == 0 or dens == 0:
                    sub = []
                elif dens == 4:
                    sub = list(range(d))
                else:
                    mask = draw(st.integers(0, 2**d - 1))
                    if dens == 1:
                        mask &= draw(st.integers(0, 2**d - 1))
                    elif dens == 3:
                        mask |= draw(st.integers(0, 2**d - 1))
                    sub = [x for x in range(d) if mask >> x & 1]
                crd.extend(sub)
                pos.append(len(crd))
            levels.append([pos, crd])
            n = len(crd)
    if value_class == "exact":
        vals = [draw(st.integers(-8, 8)) / 2 for _ in range(n)]
    elif value_class == "ones":
        vals = [1.0] * n
    else:
        vals = [
            draw(st.floats(min_value=-1e6, max_value=1e6, allow_nan=False, allow_infinity=False, width=64))
            for _ in range(n)
        ]
        vals = [0.0 if abs(v) < 1e-6 else v for v in vals]
    return {"levels": levels, "vals": vals}


@st.composite
def format_for(draw, idxs, rank, p_sparse10=5, consistent10=6, force_sparse=False):
    """Format for a tensor accessed with index list ``idxs``.  With probability consistent10/10 the level
    order follows the global index rank (which makes a kernel likely to exist and still yields non-identity
    orderings because index lists are random); otherwise any permutation."""
    order = len(idxs)
    modes = ["s" if draw(st.integers(0, 9)) < p_sparse10 else "d" for _ in range(order)]
    if force_sparse and order and "s" not in modes:
        modes[draw(st.integers(0, order - 1))] = "s"
    if order <= 1:
        ordering = tuple(range(order))
    elif draw(st.integers(0, 9)) < consistent10:
        ordering = tuple(sorted(range(order), key=lambda d: rank[idxs[d]]))
    else:
        ordering = draw(st.sampled_from(ALL_PERMS[order]))
    return C.fmt_text(tuple(modes), ordering)


@st.composite
def kernel_cases(
    draw,
    max_leaves=5,
    value_class=None,
    big_literals=False,
    sparse_output_bias=False,
    literal_rate=15,
    max_target=3,
    min_target=0,
    ops="+-**",
    density=None,
    p_sparse_in=5,
    min_dim=0,
    order_choices=(0, 1, 1, 2, 2, 2, 3),
    density_choices=None,
    zero_dim10=0,
):
    orders = {}
    tree = draw(expr_trees(max_leaves=max_leaves, orders=orders, big_literals=big_literals,
                           literal_rate=literal_rate, ops=ops, order_choices=order_choices))
    used = X.indexes_of(tree)
    lo = min(min_target, len(used), max_target)
    k = draw(st.integers(lo, min(len(used), max_target)))
    tgt = list(draw(st.permutations(used)))[:k] if used else []
    target = ["o", tgt]
    rank = {i: r for r, i in enumerate(draw(st.permutations(IDX)))}
    fm = {"o": draw(format_for(tgt, rank, 7 if sparse_output_bias else 5, 7, force_sparse=sparse_output_bias))}
    seen = []
    first = {}
    for t in X.tensors(tree):
        if t[1] not in seen:
            seen.append(t[1])
            first[t[1]] = t
            fm[t[1]] = draw(format_for(t[2], rank, p_sparse_in, 6))
    sizes = {}
    choices = [d for d in DIM_CHOICES if d >= min_dim]
    classes = alias_classes(tree, tgt)
    for cls in classes:
        s = draw(st.sampled_from(choices))
        for i in cls:
            sizes[i] = s
    if zero_dim10 and classes and draw(st.integers(0, 9)) < zero_dim10:
        # exactly one (alias class of) index has size 0 while the others keep their sizes
        for i in classes[draw(st.integers(0, len(classes) - 1))]:
            sizes[i] = 0
    vc = value_class or draw(st.sampled_from(["exact", "exact", "exact", "general"]))
    inputs = {}
    for name in seen:
        dims = tuple(sizes[i] for i in first[name][2])
        dens = density if density_choices is None else draw(st.sampled_from(list(density_choices)))
        inputs[name] = draw(stored_tensor(dims, fm[name], vc, dens))
    return {
        "target": target,
        "expr": tree,
        "assignment": X.assignment_text(target, tree),
        "formats": fm,
        "sizes": {i: sizes[i] for i in sorted(sizes)},
        "inputs": inputs,
        "value_class": vc,
    }


# ------------------------------------------------------------------- features / classification
def case_features(case):
    """Labels used for the distribution histogram and the non-triviality rules."""
    f = set()
    tree = case["expr"]
    tgt = case["target"][1]
    ts = X.tensors(tree)
    names = [t[1] for t in ts]
    if any(i not in tgt for i in X.indexes_of(tree)):
        f.add("contraction")
    if any("s" in fm for fm in case["formats"].values()):
        f.add("compressed_level")
    for fm in case["formats"].values():
        modes, ordering = C.fmt_parts(fm)
        if ordering != tuple(range(len(ordering))):
            f.add("ordering_nonidentity")
            if any(ordering[ordering[q]] != q for q in range(len(ordering))):
                f.add("ordering_3cycle")
    if len(set(names)) < len(names):
        f.add("reused_tensor")
        byname = {}
        for t in ts:
            byname.setdefault(t[1], set()).add(tuple(t[2]))
        if any(len(v) > 1 for v in byname.values()):
            f.add("reused_tensor_other_indexes")
    if any(l[0] in "if" for l in X.leaves(tree)):
        f.add("literal")
        if "contraction" in f:
            f.add("literal_with_contraction")
    monos = X.monomials(tree)
    for _c, mts in monos:
        have = {i for t in mts for i in t[2]}
        if any(i not in have for i in tgt):
            f.add("broadcast_term")
    if any(d == 0 for d in case["sizes"].values()):
        f.add("dim_zero")
    if any(d == 1 for d in case["sizes"].values()):
        f.add("dim_one")
    for nm, s in case["inputs"].items():
        if any(v == 0.0 for v in s["vals"]) and "s" in case["formats"][nm]:
            f.add("explicit_zero")
        if len(s["vals"]) == 0:
            f.add("empty_operand")
        for lv in s["levels"]:
            if lv is not None and any(a == b for a, b in zip(lv[0], lv[0][1:])):
                f.add("empty_segment")
    if "s" in case["formats"][case["target"][0]]:
        f.add("compressed_output")
    if len(tgt) >= 3 or any(len(t[2]) >= 3 for t in ts):
        f.add("order3")
    if case.get("value_class") == "general":
        f.add("general_values")
    return f


@st.composite
def lattice_cases(draw, max_operands=4, value_class="exact"):
    """Several (3-4) distinct compressed operands over the SAME index list, combined by a random + - * tree, into
    a compressed output in natural level order: the deepest use of the merge lattice (which operand is exhausted
    first decides which loop of the lattice runs)."""
    order = draw(st.sampled_from([1, 1, 2]))
    idxs = IDX[:order]
    n = draw(st.integers(3, max_operands))
    leaves = [["t", NAMES[k], list(idxs)] for k in range(n)]
    if draw(st.integers(0, 3)) == 0:
        leaves.insert(draw(st.integers(0, n)), ["i", draw(st.sampled_from([1, 2]))])

    def build(ls):
        if len(ls) == 1:
            return ls[0]
        k = draw(st.integers(1, len(ls) - 1))
        return [draw(st.sampled_from("++-**")), build(ls[:k]), build(ls[k:])]

    tree = build(list(draw(st.permutations(leaves))))
    target = ["o", list(idxs)]
    fmt_in = "s" * order if order == 1 else draw(st.sampled_from(["ss", "ds", "ss"]))
    fm = {"o": "s" * order if order == 1 else draw(st.sampled_from(["ss", "ds"]))}
    sizes = {i: draw(st.sampled_from([3, 4, 5, 6])) for i in idxs}
    inputs = {}
    for t in tensors_in_order(tree):
        fm[t] = fmt_in if draw(st.integers(0, 4)) else ("d" + fmt_in[1:] if order == 2 else fmt_in)
        dims = tuple(sizes[i] for i in idxs)
        inputs[t] = draw(stored_tensor(dims, fm[t], value_class, draw(st.sampled_from([1, 2, 2, 3]))))
    return {"target": target, "expr": tree, "assignment": X.assignment_text(target, tree), "formats": fm,
            "sizes": sizes, "inputs": inputs, "value_class": value_class}


@st.composite
def hollow_tensor(draw, dims, fmt, value_class="exact"):
    """A legal level structure that no constructor builds: coordinates stored at an upper compressed level whose
    segment at the next level is empty (pos[q] == pos[q+1]), for about half of the stored coordinates."""
    modes, ordering = C.fmt_parts(fmt)
    ldims = [dims[d] for d in ordering]
    levels = []
    n = 1
    for l, md in enumerate(modes):
        d = ldims[l]
        if md == "d":
            levels.append(None)
            n *= d
            continue
        pos, crd = [0], []
        for _p in range(n):
            if d == 0 or (l > 0 and draw(st.booleans())):
                sub = []
            else:
                mask = draw(st.integers(1, 2**d - 1)) | (draw(st.integers(0, 2**d - 1)) if l == 0 else 0)
                sub = [x for x in range(d) if mask >> x & 1]
            crd.extend(sub)
            pos.append(len(crd))
        levels.append([pos, crd])
        n = len(crd)
    vals = [draw(st.integers(-8, 8)) / 2 for _ in range(n)] if value_class == "exact" else [1.0] * n
    return {"levels": levels, "vals": vals}


@st.composite
def hollow_cases(draw, value_class="exact"):
    """One operand of order 2-3 stored (almost) all-compressed and *hollow* (see hollow_tensor); the output keeps a
    non-empty proper subset of its indexes in a compressed format and the rest is contracted, optionally against
    dense vectors, optionally added to a second sparse operand.  Every shortcut of the form 'a stored coordinate
    has something stored below it' is wrong on these inputs."""
    n = draw(st.sampled_from([2, 3, 3]))
    idxs = list(IDX[:n])
    ordering = tuple(draw(st.permutations(range(n)))) if draw(st.booleans()) else tuple(range(n))
    modes = tuple("d" if (l == 0 and draw(st.integers(0, 4)) == 0) else "s" for l in range(n))
    fb = C.fmt_text(modes, ordering)
    level_idx = [idxs[d] for d in ordering]
    k = draw(st.integers(1, n - 1))
    tgt = level_idx[:k]
    if k > 1 and draw(st.integers(0, 3)) == 0:
        tgt = list(reversed(tgt))
    contracted = [i for i in level_idx if i not in tgt]
    sizes = {i: draw(st.sampled_from([2, 3, 3, 4])) for i in idxs}
    tree = ["t", "b", idxs]
    fm = {"o": C.fmt_text(tuple("d" if (l > 0 and draw(st.integers(0, 5)) == 0) else "s" for l in range(k)), tuple(range(k)))}
    fm["b"] = fb
    inputs = {"b": draw(hollow_tensor(tuple(sizes[i] for i in idxs), fb, value_class))}
    for q, i in enumerate(contracted):
        if draw(st.booleans()):
            nm = "cd"[q % 2]
            if nm in fm:
                continue
            tree = ["*", tree, ["t", nm, [i]]] if draw(st.booleans()) else ["*", ["t", nm, [i]], tree]
            fm[nm] = draw(st.sampled_from(["d", "d", "s"]))
            inputs[nm] = draw(stored_tensor((sizes[i],), fm[nm], value_class, 4 if fm[nm] == "d" else 3))
    if draw(st.integers(0, 3)) == 0:
        fm["e"] = C.fmt_text(tuple("s" for _ in tgt), tuple(range(len(tgt))))
        inputs["e"] = draw(stored_tensor(tuple(sizes[i] for i in tgt), fm["e"], value_class, 1))
        tree = [draw(st.sampled_from("+-")), tree, ["t", "e", list(tgt)]] if draw(st.booleans()) else ["+", ["t", "e", list(tgt)], tree]
    if draw(st.integers(0, 5)) == 0:
        tree = ["*", tree, ["f", "1.5"]]
    target = ["o", list(tgt)]
    order = ["o"] + tensors_in_order(tree)
    return {"target": target, "expr": tree, "assignment": X.assignment_text(target, tree), "formats": {nm: fm[nm] for nm in order},
            "sizes": {i: sizes[i] for i in sorted(sizes)}, "inputs": inputs, "value_class": value_class}


def tensors_in_order(tree):
    out = []
    for t in X.tensors(tree):
        if t[1] not in out:
            out.append(t[1])
    return out
