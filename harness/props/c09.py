"""C09 - tensor construction and read-back are lossless for every format."""
from __future__ import annotations

import itertools
import pickle

from hypothesis import strategies as st

from .. import bridge
from .. import cases as C
from .. import templates
from ..runner import Stats, fail, jhash, result, run_stream, run_tasks

PROP = "C09"
LEVEL = "exploration"
RULE = (
    "(1) bounded-exhaustive: every format of order 0-3 ({d,s}^n x S_n) x dimensions in {0,1,2,3}^n with product "
    "<= the tier bound x EVERY subset of in-range coordinates (values 1.0, 2.0, ... with one explicit 0.0) x "
    "{from_dok, from_aos, from_soa, from_lol}; (2) Hypothesis: formats of order 0-4, coordinate lists with "
    "duplicates (incl. cancelling ones), shuffled order, zero values, a to_format target and one out-of-range "
    "coordinate variant. Oracle: an in-memory dict model - to_dok() equals the summed non-zero entries, items() "
    "yields exactly the coordinates the raw structure stores (each once), order/dimensions/format echo the "
    "request, the raw pos/crd arrays are canonical (sorted, duplicate-free, in range, exact lengths), pickling "
    "preserves the raw structure bit for bit, to_format preserves the content in the requested format, an "
    "out-of-range coordinate raises. Arguments documented as Iterable are also handed over as tuples and as one-shot "
    "iterators/generators (with dimensions given). Isolation: the containers a tensor was built from and every "
    "dictionary returned by to_dok are edited afterwards, and a second read through to_dok / items / == / to_format "
    "must still give the supplied content. non-trivial = order >= 2 and >= 2 stored entries; distinct by (format, "
    "dimensions, coordinates, constructor)."
)
ASSUMPTIONS = [
    "the model sums duplicate coordinates in input order with Python floats; values are small dyadic rationals so "
    "the sums are exact whatever the order",
    "raw structure is read through the cffi arrays (not through items()/to_dok()), so a shared bug in both "
    "read-back paths cannot hide a construction error",
]


def nkey(d):
    """Dictionary with values made comparable: NaN != NaN would make every comparison of a content with a NaN fail."""
    return {c: ("nan" if v != v else v) for c, v in d.items()}


def raw_stored(t):
    raw = C.raw_of_tensor(t)
    if raw["problem"]:
        return raw, None
    return raw, C.stored_coords(raw["levels"], raw["vals"], raw["dims"], raw["ordering"])


def build(ctor, coords, vals, dims, fmt, infer=False, container="list", keep=None):
    """infer=True: ``dimensions`` is omitted and tensora has to infer it (largest coordinate + 1 per axis).
    container: how the (documented ``Iterable``) arguments are handed over when ``dimensions`` is given - 'list',
    'tuple' or 'iter' (one-shot iterators / generators, which can be walked exactly once).  keep: a dict that receives
    the mutable containers that were passed, so the caller can mutate them afterwards."""
    bridge.ensure_tensora()
    from tensora import Tensor

    order = len(dims)
    if container != "list" and not infer and ctor in ("aos", "soa", "lol"):
        if ctor == "aos" or (ctor == "soa" and order == 0):
            if container == "tuple":
                return Tensor.from_aos(tuple(coords), tuple(vals), dimensions=dims, format=fmt)
            return Tensor.from_aos((c for c in coords), iter(list(vals)), dimensions=dims, format=fmt)
        if ctor == "soa":
            if container == "tuple":
                return Tensor.from_soa(tuple(tuple(c[k] for c in coords) for k in range(order)), tuple(vals), dimensions=dims, format=fmt)
            return Tensor.from_soa(tuple(iter([c[k] for c in coords]) for k in range(order)), (v for v in vals), dimensions=dims, format=fmt)
        if ctor == "lol" and container == "tuple":
            model = {}
            for c, v in zip(coords, vals):
                model[c] = model.get(c, 0.0) + v

            def nest_t(prefix, k):
                if k == order:
                    return model.get(prefix, 0.0)
                return tuple(nest_t(prefix + (i,), k + 1) for i in range(dims[k]))

            return Tensor.from_lol(nest_t((), 0), dimensions=dims, format=fmt)
    if infer:
        if ctor == "dok":
            d = {}
            for c, v in zip(coords, vals):
                d[c] = d.get(c, 0.0) + v
            return Tensor.from_dok(d, format=fmt)
        if ctor == "soa" and order:
            return Tensor.from_soa(tuple([c[k] for c in coords] for k in range(order)), list(vals), format=fmt)
        return Tensor.from_aos(list(coords), list(vals), format=fmt)
    if ctor == "dok":
        d = {}
        for c, v in zip(coords, vals):
            d[c] = d.get(c, 0.0) + v  # a dict cannot hold duplicates: pre-sum (model does the same)
        if keep is not None:
            keep["dok"] = d
        return Tensor.from_dok(d, dimensions=dims, format=fmt)
    if ctor == "aos":
        lc, lv = list(coords), list(vals)
        if keep is not None:
            keep["coords"], keep["vals"] = lc, lv
        return Tensor.from_aos(lc, lv, dimensions=dims, format=fmt)
    if ctor == "soa":
        soa = tuple([c[k] for c in coords] for k in range(order))
        if order == 0:
            return Tensor.from_aos(list(coords), list(vals), dimensions=dims, format=fmt)
        return Tensor.from_soa(soa, list(vals), dimensions=dims, format=fmt)
    if ctor == "lol":
        model = {}
        for c, v in zip(coords, vals):
            model[c] = model.get(c, 0.0) + v

        def nest(prefix, k):
            if k == order:
                return model.get(prefix, 0.0)
            return [nest(prefix + (i,), k + 1) for i in range(dims[k])]

        return Tensor.from_lol(nest((), 0), dimensions=dims, format=fmt)
    raise ValueError(ctor)


def check_construction(case):
    """case: {fmt, dims, coords[[...]], vals[...], ctor, to_format?, oob?}"""
    fmt = case["fmt"]
    dims = tuple(case["dims"])
    coords = [tuple(c) for c in case["coords"]]
    vals = [float(v) for v in case["vals"]]
    ctor = case["ctor"]
    modes, ordering = C.fmt_parts(fmt)
    order = len(dims)
    d = f"{ctor} fmt={fmt} dims={dims} coords={coords[:6]}{'...' if len(coords) > 6 else ''} vals={vals[:6]}"
    model = {}
    for c, v in zip(coords, vals):
        model[c] = model.get(c, 0.0) + v
    nz = {c: v for c, v in model.items() if v != 0.0}
    has_nan = any(v != v for v in model.values())
    fails = []
    oob = case.get("oob")
    if oob is not None:
        bad = tuple(oob)
        # the coordinate may be out of range on several axes (e.g. a zero-sized dimension makes every value out
        # of range); it is an instance of F-F when at least one of them is stored in a dense level
        bad_axes = [a for a in range(order) if not (0 <= bad[a] < dims[a])]
        dense_level = any(modes[list(ordering).index(a)] == "d" for a in bad_axes)
        try:
            build(ctor if ctor != "lol" else "aos", coords + [bad], vals + [1.0], dims, fmt)
        except Exception:  # noqa: BLE001 - any rejection is what the property asks for
            return [], {"oob": "rejected"}
        lvl = "dense-level" if dense_level else "compressed-level"
        return [fail(f"out-of-range-coordinate-accepted:{lvl}", f"{d} + out-of-range {bad}: no error, entry dropped or stored",
                     dense_level=dense_level, oob=list(bad))], {"oob": "accepted"}
    infer = bool(case.get("infer_dims"))
    if infer:
        if not coords or order == 0:
            return [], {"skipped": "nothing to infer from"}
        dims = tuple(max(c[k] for c in coords) + 1 for k in range(order))
        d += f" dimensions omitted (expected inference {dims})"
    container = case.get("container", "list")
    if container != "list":
        d += f" [{container} arguments]"
    keep = {}
    try:
        t = build(ctor, coords, vals, dims, fmt, infer=infer, container=container, keep=keep)
    except Exception as e:  # noqa: BLE001
        return [fail(f"constructor-raises:{type(e).__name__}", f"{d}: {e}"[:400])], {}
    # the tensor owns its content: changing the containers it was built from changes nothing
    if "dok" in keep:
        keep["dok"][(0,) * order] = 99.0
        keep["dok"].clear()
    if "coords" in keep:
        keep["coords"].append((0,) * order)
        keep["vals"][:] = [7.0] * (len(keep["vals"]) + 1)
    if t.order != order or tuple(t.dimensions) != dims or t.format.deparse() != fmt_canon(fmt):
        fails.append(fail("metadata", f"{d}: order={t.order} dims={t.dimensions} format={t.format.deparse()}"))
    raw, stored = raw_stored(t)
    if stored is None:
        return fails + [fail("raw-structure-unreadable", f"{d}: {raw['problem']}")], {}
    errs = C.validate_arrays(raw["dims"], raw["ordering"], raw["modes"], raw["levels"], len(raw["vals"]))
    if errs:
        fails.append(fail(f"raw-invalid:{errs[0][0]}", f"{d}: {errs}"))
    raw_nz = {c: v for c, v in stored.items() if v != 0.0}
    if nkey(raw_nz) != nkey(nz):
        fails.append(fail("raw-content", f"{d}: stored {sorted(raw_nz.items())[:5]} expected {sorted(nz.items())[:5]}"))
    # a compressed-only tensor must not store coordinates that were never supplied
    if order >= 1 and "d" not in modes and ctor != "lol" and set(stored) - set(model):
        fails.append(fail("raw-invented-coordinates", f"{d}: {sorted(set(stored) - set(model))[:4]}"))
    try:
        dok = t.to_dok()
        items = list(t.items())
    except Exception as e:  # noqa: BLE001
        return fails + [fail(f"read-back-raises:{type(e).__name__}", f"{d}: {e}"[:300])], {}
    if nkey(dok) != nkey(nz):
        fails.append(fail("to_dok", f"{d}: {sorted(dok.items())[:5]} expected {sorted(nz.items())[:5]}"))
    if len(items) != len(stored) or nkey(dict(items)) != nkey(stored):
        fails.append(fail("items", f"{d}: items {sorted(items)[:5]} raw {sorted(stored.items())[:5]}"))
    if nkey(t.to_dok(explicit_zeros=True)) != nkey(stored):
        fails.append(fail("to_dok-explicit-zeros", d))
    # reading is repeatable and what it returns is the caller's to change: edit every returned dictionary, then read
    # again through every reader (a read that hands out shared internal state, or caches and returns the cache, fails)
    try:
        for flag in (True, False):
            got = t.to_dok(explicit_zeros=flag)
            got[(0,) * order] = 123.0
            for k in list(got)[1:]:
                del got[k]
        again = (nkey(t.to_dok()), nkey(t.to_dok(explicit_zeros=True)), nkey(dict(t.items())))
        if again != (nkey(nz), nkey(stored), nkey(stored)):
            fails.append(fail("read-back-not-repeatable", f"{d}: after editing the dictionaries returned by to_dok a second read gives "
                              f"{sorted(again[0].items())[:4]} / {sorted(again[1].items())[:4]}, expected {sorted(nz.items())[:4]}"))
        elif (not has_nan and not (t == t)) or (case.get("to_format") is None and nkey({c: v for c, v in raw_stored(t.to_format(fmt))[1].items() if v != 0.0}) != nkey(nz)):
            fails.append(fail("read-back-not-repeatable", f"{d}: == / to_format disagree with the stored content after the returned dictionaries were edited"))
    except Exception as e:  # noqa: BLE001
        fails.append(fail(f"read-back-raises:{type(e).__name__}", f"{d}: second read: {e}"[:300]))
    try:
        p = pickle.loads(pickle.dumps(t))
        rp = C.raw_of_tensor(p)
        if (rp["levels"], [repr(x) for x in rp["vals"]], rp["dims"], rp["modes"], rp["ordering"]) != (
                raw["levels"], [repr(x) for x in raw["vals"]], raw["dims"], raw["modes"], raw["ordering"]):
            fails.append(fail("pickle-changes-structure", d))
    except Exception as e:  # noqa: BLE001
        fails.append(fail(f"pickle-raises:{type(e).__name__}", f"{d}: {e}"[:300]))
    tf = case.get("to_format")
    if tf is not None:
        try:
            t2 = t.to_format(tf)
            r2, s2 = raw_stored(t2)
            if s2 is None or nkey({c: v for c, v in s2.items() if v != 0.0}) != nkey(nz):
                fails.append(fail("to_format-content", f"{d} -> {tf}"))
            elif t2.format.deparse() != fmt_canon(tf) or tuple(t2.dimensions) != dims:
                fails.append(fail("to_format-metadata", f"{d} -> {tf}: {t2.format.deparse()} {t2.dimensions}"))
            elif C.validate_arrays(r2["dims"], r2["ordering"], r2["modes"], r2["levels"], len(r2["vals"])):
                fails.append(fail("to_format-invalid", f"{d} -> {tf}"))
            if not has_nan and not (t == t2):
                fails.append(fail("equality-after-to_format", f"{d} -> {tf}"))
        except Exception as e:  # noqa: BLE001
            fails.append(fail(f"to_format-raises:{type(e).__name__}", f"{d} -> {tf}: {e}"[:300]))
    return fails, {"stored": len(stored)}


def fmt_canon(fmt):
    m, o = C.fmt_parts(fmt)
    return C.fmt_text(m, o)


def labels_of(case):
    modes, ordering = C.fmt_parts(case["fmt"])
    n = len(ordering)
    l = {f"order{n}", f"ctor:{case['ctor']}"}
    if ordering != tuple(range(n)):
        l.add("ordering_nonidentity")
        if any(ordering[ordering[q]] != q for q in range(n)):
            l.add("ordering_not_involution")
    if 0 in case["dims"]:
        l.add("dim_zero")
    if len(set(map(tuple, case["coords"]))) < len(case["coords"]):
        l.add("duplicate_coordinates")
    if any(v == 0.0 for v in case["vals"]):
        l.add("explicit_zero_value")
    if any(v != v or v in (float("inf"), float("-inf")) for v in case["vals"]):
        l.add("non_finite_value")
    if "s" in modes and "d" in modes:
        l.add("mixed_modes")
    if case.get("oob") is not None:
        l.add("out_of_range_variant")
    if case.get("infer_dims"):
        l.add("dimensions_inferred")
    if case.get("to_format"):
        l.add("to_format")
    if case.get("container", "list") != "list":
        l.add(f"container:{case['container']}")
    if case.get("large"):
        l.add("large_level")
    return l


def run_case(case):
    fails, info = check_construction(case)
    labels = labels_of(case)
    if info.get("oob"):
        labels.add(f"oob:{info['oob']}")
    distinct = len(set(map(tuple, case["coords"])))
    nontrivial = len(case["dims"]) >= 2 and distinct >= 2 and case.get("oob") is None
    sample = {k: case[k] for k in ("fmt", "dims", "ctor", "coords", "vals") if k in case}
    if case.get("large"):
        sample["stored_entries"] = len(case["coords"])
    sample["coords"] = sample["coords"][:8]
    sample["vals"] = sample["vals"][:8]
    return result(fails, labels, nontrivial, jhash(case), sample)


# ------------------------------------------------------------------------ exhaustive part
def exhaustive_task(task):
    order, fmt, dims_list, max_cells = task
    stats = Stats()
    for dims in dims_list:
        coords_all = list(itertools.product(*[range(d) for d in dims]))
        n = len(coords_all)
        for mask in range(1 << n):
            chosen = [coords_all[k] for k in range(n) if mask >> k & 1]
            vals = [float(k + 1) for k in range(len(chosen))]
            if len(vals) >= 2:
                vals[-1] = 0.0  # one explicit zero value
            ctors = ["dok", "aos"] if mask % 3 else ["dok", "aos", "soa", "lol"]
            for ctor in ctors:
                case = {"fmt": fmt, "dims": list(dims), "coords": [list(c) for c in chosen], "vals": vals, "ctor": ctor}
                if ctor != "dok" and mask % 4 >= 2:
                    case["container"] = "iter" if mask % 4 == 2 else "tuple"
                if mask % 5 == 1:
                    alts = list(templates.all_formats(order))
                    case["to_format"] = alts[(mask // 5) % len(alts)]
                stats.add(case, run_case(case))
    return stats


def dims_lists(order, max_cells):
    out = []
    for dims in itertools.product(range(4), repeat=order):
        p = 1
        for d in dims:
            p *= d
        if p <= max_cells:
            out.append(dims)
    return out


# ------------------------------------------------------------------------ Hypothesis part
@st.composite
def constructions(draw, tier):
    order = draw(st.sampled_from([0, 1, 2, 2, 3, 3, 3, 4, 4]))
    modes = tuple(draw(st.sampled_from("ds")) for _ in range(order))
    ordering = tuple(draw(st.permutations(range(order)))) if order else ()
    fmt = C.fmt_text(modes, ordering)
    dims = tuple(draw(st.sampled_from([0, 1, 2, 2, 3, 3, 4])) for _ in range(order))
    all_c = list(itertools.product(*[range(d) for d in dims]))
    if all_c:
        k = draw(st.integers(0, min(len(all_c), 10)))
        idxs = draw(st.lists(st.integers(0, len(all_c) - 1), min_size=k, max_size=k))
        coords = [all_c[i] for i in idxs]  # duplicates arise naturally
        # extra duplicates, some cancelling
        if coords and draw(st.booleans()):
            coords += [coords[draw(st.integers(0, len(coords) - 1))]]
    else:
        coords = []
    pool = [1.0, 2.0, -1.0, 0.5, 0.0, -2.0, 3.0]
    if draw(st.integers(0, 5)) == 0:
        # non-finite and signed-zero values are values too: NaN and +-inf are non-zero entries, -0.0 is a zero
        pool = pool + [float("nan"), float("inf"), float("-inf"), -0.0, 1e308, 5e-324]
    vals = [draw(st.sampled_from(pool)) for _ in coords]
    if len(coords) >= 2 and coords[-1] in coords[:-1] and draw(st.booleans()):
        j = coords.index(coords[-1])
        vals[-1] = -vals[j]  # cancelling duplicate
    ctor = draw(st.sampled_from(["dok", "aos", "soa", "lol"]))
    if ctor == "lol" and (order == 0 and False):
        ctor = "aos"
    case = {"fmt": fmt, "dims": list(dims), "coords": [list(c) for c in coords], "vals": vals, "ctor": ctor}
    if ctor != "dok":
        case["container"] = draw(st.sampled_from(["list", "list", "tuple", "iter", "iter"]))
    r = draw(st.integers(0, 9))
    if r < 4 and order > 0:
        m2 = tuple(draw(st.sampled_from("ds")) for _ in range(order))
        o2 = tuple(draw(st.permutations(range(order))))
        case["to_format"] = C.fmt_text(m2, o2)
    return case


def oob_variants(case):
    """Every axis x {dim, dim+1, -1}: exactly one coordinate outside the dimensions (fault enumeration)."""
    dims = case["dims"]
    order = len(dims)
    base = list(case["coords"][0]) if case["coords"] else [0] * order
    for axis in range(order):
        for bad in (dims[axis], dims[axis] + 1, -1):
            c = {k: v for k, v in case.items() if k != "to_format"}
            b = list(base)
            b[axis] = bad
            c["oob"] = b
            c["oob_axis"] = axis
            if c["ctor"] == "lol":
                c["ctor"] = "aos"
            yield c


def large_task(task):
    """Levels with thousands of coordinates (a vector of 4096-10000 positions at least half full, one long row or column
    of a matrix): code paths that only exist for big nodes (bulk sorting, vectorised range checks) are never entered by
    the small cases.  Each construction is followed by its out-of-range variants."""
    k, seed = task
    stats = Stats()
    n = [4096, 5000, 8192, 10000][k % 4]
    stride = [1, 2, 1, 3][(k // 4) % 4]          # density 1, 1/2, 1, 1/3
    keep = [c for c in range(n) if (c * 7 + seed + k) % (2 * stride) < 2] if stride > 1 else [c for c in range(n) if (c + seed + k) % 5 != 0]
    shapes = [("s", (n,), lambda c: (c,)), ("ds", (2, n), lambda c: (c % 2, c)), ("ss", (n, 2), lambda c: (c, c % 2)),
              ("s1s0", (2, n), lambda c: (c % 2, c)), ("sd", (n, 2), lambda c: (c, 0))]
    fmt, dims, mk = shapes[(k // 2) % len(shapes)]
    coords = [list(mk(c)) for c in keep]
    vals = [float(1 + (c % 7)) for c in keep]
    for ctor in (["aos", "dok"] if k % 2 else ["soa", "aos"]):
        case = {"fmt": fmt, "dims": list(dims), "coords": coords, "vals": vals, "ctor": ctor, "large": True}
        if k % 3 == 0:
            case["to_format"] = "".join("s" for _ in dims)
        stats.add(case, run_case(case))
        big_axis = max(range(len(dims)), key=lambda a: dims[a])
        for bad in (dims[big_axis], dims[big_axis] + 5, -1):
            b = list(coords[len(coords) // 2])
            b[big_axis] = bad
            v = dict(case, oob=b, oob_axis=big_axis)
            v.pop("to_format", None)
            stats.add(v, run_case(v))
    return stats


def generated_task(task):
    from ..native.pool import Worker
    from ..runner import generate_cases

    tier, seed, shard, n = task
    stats = Stats()
    w = Worker(module="harness.native.worker2")
    pending = []
    try:
        for k, case in enumerate(generate_cases(constructions(tier), n, seed * 9103 + shard)):
            stats.add(case, run_case(case))
            if len(case["dims"]) > 0 and k % 2 == 0:
                for v in oob_variants(case):
                    stats.add(v, run_case(v))
            if case["coords"] and case["ctor"] != "lol" and k % 2 == 1:
                v = dict(case, infer_dims=True)
                stats.add(v, run_case(v))
            if k % 3 == 0:
                pending.append(case)
            if len(pending) >= 40:
                temp_iterator_batch(pending, stats, w)
                pending = []
        if pending:
            temp_iterator_batch(pending, stats, w)
    finally:
        w.close()
    return stats


def temp_iterator_batch(cases_, stats, w):
    """items() obtained from a temporary tensor, drained only after the tensor is gone and the allocator has been
    stirred - in a disposable worker, because a use-after-free may kill the process."""
    rep = w.call({"op": "items_of_temporary", "cases": cases_}, timeout=300)
    if "crash" in rep:
        for c in cases_:
            r1 = w.call({"op": "items_of_temporary", "cases": [c]}, timeout=120)
            judge_temp(c, r1["results"][0] if "results" in r1 else {"crash": r1.get("crash")}, stats)
        return
    if "error" in rep:
        raise bridge.HarnessError(rep["error"] + rep.get("trace", ""))
    for c, r in zip(cases_, rep["results"]):
        judge_temp(c, r, stats)


def judge_temp(case, r, stats):
    d = f"{case['ctor']} fmt={case['fmt']} dims={tuple(case['dims'])} coords={case['coords'][:5]}"
    case = dict(case, variant="items_of_temporary")
    fails = []
    if "crash" in r:
        fails.append(fail("items-of-temporary-crashes", f"{d}: {r['crash']}"))
    elif "raised" in r:
        fails.append(fail("items-of-temporary-raises", f"{d}: {r['raised']}"))
    elif "skipped" not in r:
        got = {tuple(c): v for c, v in r["items"]}
        want = {tuple(c): v for c, v in r["stored_while_alive"]}
        if got != want or len(r["items"]) != len(want):
            fails.append(fail("items-of-temporary-wrong", f"{d}: drained after the tensor was dropped: {sorted(got.items())[:4]} "
                              f"vs while alive {sorted(want.items())[:4]}"))
    stats.add(case, result(fails, {"variant:items_of_temporary"}, False, None, None, {"temporary_iterators": 1}))


STREAMS = {}


def replay(payload):
    case = payload["case"]
    if case.get("variant") == "items_of_temporary":
        from ..native.pool import Worker

        st_ = Stats()
        w = Worker(module="harness.native.worker2")
        try:
            temp_iterator_batch([{k: v for k, v in case.items() if k != "variant"}], st_, w)
        finally:
            w.close()
        return [{"bucket": b, "detail": ex[1], "info": ex[2]} for b, v in st_.buckets.items() for ex in v["examples"]]
    return check_construction(case)[0]


def candidates(case):
    n = len(case["coords"])
    for k in range(n):
        c = dict(case)
        c["coords"] = case["coords"][:k] + case["coords"][k + 1:]
        c["vals"] = case["vals"][:k] + case["vals"][k + 1:]
        yield c
    for k, v in enumerate(case["vals"]):
        if v != 1.0:
            c = dict(case)
            c["vals"] = case["vals"][:k] + [1.0] + case["vals"][k + 1:]
            yield c
    if case.get("to_format"):
        c = dict(case)
        c.pop("to_format")
        yield c
    if case["ctor"] != "aos":
        yield dict(case, ctor="aos")


def shrink_case(case, bucket):
    from ..runner import minimise

    pred = lambda c: any(f["bucket"] == bucket for f in check_construction(c)[0])  # noqa: E731
    return minimise(case, candidates, pred, 200)[0] if pred(case) else case


def run(chk):
    quick = chk.tier == "quick"
    max_cells = 6 if quick else 8
    tasks = []
    for order in range(0, 4):
        dl = dims_lists(order, max_cells)
        for fmt in templates.all_formats(order):
            # split the dims list so tasks are balanced
            for off in range(0, len(dl), 8):
                tasks.append((order, fmt, dl[off : off + 8], max_cells))
    chk.absorb(run_tasks(exhaustive_task, tasks), shrink=shrink_case, kind="construction")
    chk.coverage_extra["exhaustive"] = False
    chk.coverage_extra["exhaustive_subdomain"] = (
        f"all formats of order 0-3 x all dims in {{0..3}}^n with product <= {max_cells} x all coordinate subsets"
    )
    chk.absorb(run_tasks(large_task, [(k, chk.seed) for k in range(16 if quick else 160)]), kind="construction")
    n = 2400 if quick else 100000
    chk.absorb(run_tasks(generated_task, [(chk.tier, chk.seed, s_, n // 16) for s_ in range(16)]), shrink=shrink_case,
               kind="construction")
