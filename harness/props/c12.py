"""C12 - assignment and format text round-trips and means what arithmetic says."""
from __future__ import annotations

import itertools
import json
import os
import re
import subprocess
import sys
from fractions import Fraction

from hypothesis import strategies as st

from .. import bridge
from ..runner import VERIF, Stats, fail, jhash, result, run_stream, run_tasks

PROP = "C12"
LEVEL = "exploration"
RULE = (
    "(1) arbitrary text <= 256 chars (Hypothesis text over a grammar-biased alphabet, plus single-character "
    "mutations of valid sentences) through parse_assignment / parse_format / parse_named_format: nothing may be "
    "raised and the result is a Success of the right type or a Failure; (2) sentences generated directly from the "
    "text grammar (random spaces, redundant parentheses, every literal spelling: 007, 1.50, 2E-3, 10e+2) and trees "
    "generated directly: parse(deparse(t)) == t and parse(deparse(parse(s))) == parse(s); (3) meaning: an "
    "independent precedence-climbing evaluator written for the harness evaluates the TEXT with every tensor access "
    "bound to a drawn rational and must equal a fold of the tree tensora parsed; (4) sentences made invalid by "
    "construction in exactly one way must yield the specific typed failure; (5) every string over {d,s,0,1,2,3} up "
    "to the tier's length is accepted by parse_format iff it matches the documented grammar with a permutation "
    "ordering, and accepted formats round-trip. non-trivial = sentence with >=3 operators of mixed precedence or "
    "a parenthesis that changes the meaning; distinct by text. Thorough adds coverage-guided Atheris campaigns."
)
ASSUMPTIONS = [
    "bounded domain: strings <= 256 characters, nesting <= 12; beyond ~300 nested parentheses or ~1000 summands the "
    "Python recursion limit is hit (interpreter resource limit, not claimed either way)",
    "float literals denote the double Python's float() gives for their text",
]

# ------------------------------------------------------- independent evaluator of assignment text
TOKEN = re.compile(r" *(?:(?P<num>\d+(?:(?:\.\d+(?:[Ee][+-]?\d+)?)|(?:(?:\.\d+)?[Ee][+-]?\d+))|\d+)|(?P<name>[A-Za-z][A-Za-z0-9]*)|(?P<sym>[()+\-*,=]))")


class TextError(Exception):
    pass


def tokenize(s):
    pos = 0
    out = []
    while True:
        m = TOKEN.match(s, pos)
        if not m:
            break
        out.append((m.lastgroup, m.group(m.lastgroup)))
        pos = m.end()
    if s[pos:].strip(" ") != "":
        raise TextError(f"cannot tokenize at {pos}")
    return out


class TextEval:
    """expr := term (('+'|'-') term)* ; term := factor ('*' factor)* ; factor := NAME '(' idx,* ')' | NUM | '(' expr ')'
    Evaluates to a Fraction; ``env`` maps (name, indexes) -> Fraction.  Also counts operators."""

    def __init__(self, tokens, env):
        self.t = tokens
        self.i = 0
        self.env = env
        self.accesses = []
        self.ops = []

    def peek(self):
        return self.t[self.i] if self.i < len(self.t) else (None, None)

    def eat(self, kind=None, val=None):
        k, v = self.peek()
        if k is None or (kind and k != kind) or (val and v != val):
            raise TextError(f"expected {kind} {val} at token {self.i}, found {k} {v}")
        self.i += 1
        return v

    def expr(self):
        v = self.term()
        while self.peek() in (("sym", "+"), ("sym", "-")):
            op = self.eat()
            r = self.term()
            self.ops.append(op)
            v = v + r if op == "+" else v - r
        return v

    def term(self):
        v = self.factor()
        while self.peek() == ("sym", "*"):
            self.eat()
            self.ops.append("*")
            v = v * self.factor()
        return v

    def access(self):
        name = self.eat("name")
        self.eat("sym", "(")
        idx = []
        if self.peek() != ("sym", ")"):
            idx.append(self.eat("name"))
            while self.peek() == ("sym", ","):
                self.eat()
                idx.append(self.eat("name"))
        self.eat("sym", ")")
        return name, tuple(idx)

    def factor(self):
        k, v = self.peek()
        if k == "num":
            self.eat()
            if re.fullmatch(r"\d+", v):
                return Fraction(int(v))
            fv = float(v)
            if fv in (float("inf"), float("-inf")) or fv != fv:
                raise TextError(f"literal {v} is not a finite double")
            return Fraction(fv)
        if k == "name":
            acc = self.access()
            self.accesses.append(acc)
            return self.env(acc)
        if (k, v) == ("sym", "("):
            self.eat()
            r = self.expr()
            self.eat("sym", ")")
            return r
        raise TextError(f"unexpected token {k} {v}")


def env_value(acc, salt):
    """Deterministic 'random' rational per access: different accesses get unrelated values."""
    h = int(jhash([acc[0], list(acc[1]), salt]), 16)
    return Fraction((h % 19) - 9, (h // 19 % 4) + 1) or Fraction(7, 3)


def eval_text(text, salt):
    toks = tokenize(text)
    ev = TextEval(toks, lambda a: env_value(a, salt))
    target = ev.access()
    ev.eat("sym", "=")
    v = ev.expr()
    if ev.peek() != (None, None):
        raise TextError("trailing tokens")
    return target, v, ev


def fold_tree(e, salt):
    """Value of a tensora expression tree (iterative along the left spine, which is where a long chain is deep)."""
    from tensora.expression import ast as E

    spine = []
    while isinstance(e, (E.Add, E.Subtract, E.Multiply)):
        spine.append(e)
        e = e.left
    if isinstance(e, E.Tensor):
        v = env_value((e.name, tuple(e.indexes)), salt)
    else:
        v = Fraction(e.value)
    for node in reversed(spine):
        r = fold_tree(node.right, salt)
        if isinstance(node, E.Add):
            v = v + r
        elif isinstance(node, E.Subtract):
            v = v - r
        else:
            v = v * r
    return v


def strip_parens_value(text, salt):
    """Value of the text with every parenthesis of the right-hand side removed (to see whether any mattered)."""
    lhs, rhs = text.split("=", 1)
    depth = 0
    out = []
    prev_name = False
    i = 0
    # remove only grouping parentheses, not the ones of tensor accesses
    toks = tokenize(rhs)
    keep = []
    stack = []
    for k, (kind, v) in enumerate(toks):
        if (kind, v) == ("sym", "("):
            is_access = k > 0 and toks[k - 1][0] == "name"
            stack.append(is_access)
            if is_access:
                keep.append((kind, v))
        elif (kind, v) == ("sym", ")"):
            if stack.pop():
                keep.append((kind, v))
        else:
            keep.append((kind, v))
    flat = lhs + "= " + " ".join(v for _k, v in keep)
    return eval_text(flat, salt)[1]


# --------------------------------------------------------------------------- generators
TNAMES = ["a", "b", "c", "T1", "xy", "M"]
INAMES = ["i", "j", "k", "l"]
NUMBERS = ["0", "1", "2", "007", "12", "1.5", "1.50", "0.25", "2E-3", "10e+2", "3.0E0", "0.5e1", "1e0", "4294967296",
           "1.7976931348623157e308", "5e-324", "0.1"]


@st.composite
def spaces(draw):
    return " " * draw(st.sampled_from([0, 0, 1, 1, 2]))


@st.composite
def sentence_expr(draw, depth, orders):
    def sp():
        return draw(spaces())

    def factor(d):
        r = draw(st.integers(0, 9))
        if r < 5 or d == 0:
            if draw(st.integers(0, 5)) == 0:
                return draw(st.sampled_from(NUMBERS))
            name = draw(st.sampled_from(TNAMES))
            if name not in orders:
                orders[name] = draw(st.integers(0, 3))
            idx = [draw(st.sampled_from(INAMES)) for _ in range(orders[name])]
            return name + sp() + "(" + sp() + (sp() + "," + sp()).join(idx) + sp() + ")"
        inner = expr(d - 1)
        if draw(st.integers(0, 3)) == 0:
            inner = "(" + sp() + inner + sp() + ")"  # redundant double parentheses
        return "(" + sp() + inner + sp() + ")"

    def term(d):
        n = draw(st.sampled_from([1, 1, 2, 2, 3]))
        return (sp() + "*" + sp()).join(factor(d) for _ in range(n))

    def expr(d):
        n = draw(st.sampled_from([1, 2, 2, 3, 4]))
        s = term(d)
        for _ in range(n - 1):
            s += sp() + draw(st.sampled_from("+-")) + sp() + term(d)
        return s

    return expr(depth)


@st.composite
def sentences(draw, tier):
    orders = {}
    rhs = draw(sentence_expr(draw(st.integers(0, 3)), orders))
    n = draw(st.integers(0, 3))
    tgt_idx = [draw(st.sampled_from(INAMES)) for _ in range(n)]
    text = draw(spaces()) + "out" + draw(spaces()) + "(" + ",".join(tgt_idx) + ")" + draw(spaces()) + "=" + draw(spaces()) + rhs + draw(spaces())
    return {"text": text, "kind": "sentence"}


@st.composite
def invalid_sentences(draw, tier):
    orders = {}
    rhs = draw(sentence_expr(2, orders))
    used = [n for n in TNAMES if re.search(rf"\b{n} *\(", rhs)]
    kind = draw(st.sampled_from(["mutating", "inconsistent", "conflict"]))
    text = None
    if not used:
        rhs, orders, used = "a(i) * 2", {"a": 1}, ["a"]
    if kind == "mutating":
        victim = draw(st.sampled_from(used))
        text = f"{victim}(i) = {rhs}"
        expect = "MutatingAssignmentError"
    elif kind == "inconsistent":
        victim = draw(st.sampled_from(used))
        k = orders.get(victim, 1) + 1
        extra = victim + "(" + ",".join(INAMES[:k]) + ")"
        text = f"out(i) = {rhs} + {extra}"
        expect = "InconsistentDimensionsError"
    else:
        victim = draw(st.sampled_from(used))
        # put the tensor's name where an index belongs: in the target, or in ANY index slot of ANY access
        slots = [m for m in re.finditer(r"[(,] *([A-Za-z][A-Za-z0-9]*) *(?=[,)])", rhs)]
        if slots and draw(st.integers(0, 3)):
            mt = slots[draw(st.integers(0, len(slots) - 1))]
            rhs2 = rhs[: mt.start(1)] + victim + rhs[mt.end(1):]
            text = f"out(i) = {rhs2}"
        else:
            text = f"out({victim}) = {rhs}"
        expect = "NameConflictError"
    return {"text": text, "kind": "invalid", "expect": expect}


ALPHABET = "abxyTij()+-*=,. 0123456789eE" + "ds_:"


@st.composite
def arbitrary_text(draw, tier):
    mode = draw(st.integers(0, 4))
    if mode == 4:
        # a valid sentence in which one factor is a literal too large for a double: may be rejected, but if it
        # is accepted it must still round-trip
        base = draw(sentences(tier))["text"]
        big = draw(st.sampled_from(["1e999", "123456789e400", "1.5E+309", "17976931348623157e292", "1e309"]))
        return {"text": (base + draw(st.sampled_from([" * ", " + ", " - "])) + big)[:256], "kind": "arbitrary"}
    if mode == 0 and draw(st.integers(0, 3)) == 0:
        # format strings whose ordering numbers are far outside 0..n-1 (beyond a machine word, or just large): always a
        # typed failure, never an exception
        n = draw(st.integers(1, 4))
        nums = [draw(st.sampled_from(["0", "1", "64", "1000", "4294967296", "9223372036854775808", "99999999999999999999",
                                      "1" + "0" * 40, "007"])) for _ in range(n)]
        s = "".join(draw(st.sampled_from("ds")) + k for k in nums)
        if draw(st.booleans()):
            s = "T1:" + s
    elif mode == 0:
        s = draw(st.text(alphabet=ALPHABET, max_size=60))
    elif mode == 1:
        s = draw(st.text(max_size=40))
    else:
        base = draw(sentences(tier))["text"] if mode == 2 else draw(st.sampled_from(
            ["ds", "d1s0", "s0d1s2", "A:d1s0", "x:d", "", "dd0", "d0d0", "s2s1s0", "name_1:ds"]))
        k = draw(st.integers(0, max(0, len(base))))
        edit = draw(st.sampled_from(["del", "ins", "rep", "dup"]))
        ch = draw(st.sampled_from(ALPHABET + "\t\né"))
        if edit == "del" and base:
            s = base[:k] + base[k + 1:]
        elif edit == "ins":
            s = base[:k] + ch + base[k:]
        elif edit == "rep" and base:
            s = base[:k] + ch + base[k + 1:]
        else:
            s = base[:k] + base[k:k + 3] + base[k:]
    return {"text": s[:256], "kind": "arbitrary"}


@st.composite
def format_objects(draw, tier):
    """Formats of order 0-14 (two-digit ordering entries above 9) in both spellings."""
    order = draw(st.sampled_from([0, 1, 2, 3, 4, 6, 9, 10, 11, 12, 14]))
    modes = [draw(st.sampled_from("ds")) for _ in range(order)]
    ordering = list(draw(st.permutations(range(order)))) if draw(st.integers(0, 4)) else list(range(order))
    spelled = "".join(f"{m}{o}" for m, o in zip(modes, ordering))
    if ordering == list(range(order)) and draw(st.booleans()):
        spelled = "".join(modes)
    return {"kind": "format_object", "modes": modes, "ordering": ordering, "text": spelled}


@st.composite
def trees(draw, tier):
    """Trees built directly from tensora's AST classes (as a nested list; see build_tree)."""
    orders = {}

    def leaf():
        r = draw(st.integers(0, 9))
        if r < 2:
            return ["i", draw(st.sampled_from([0, 1, 2, 7, 12, 4294967296]))]
        if r < 4:
            return ["f", draw(st.sampled_from([0.0, 0.5, 1.5, 2e-3, 1e16, 1e-7, 123456.789, 1.7976931348623157e308, 5e-324]))]
        name = draw(st.sampled_from(TNAMES))
        if name not in orders:
            orders[name] = draw(st.integers(0, 3))
        return ["t", name, [draw(st.sampled_from(INAMES)) for _ in range(orders[name])]]

    def node(d):
        if d == 0 or draw(st.integers(0, 3)) == 0:
            return leaf()
        return [draw(st.sampled_from("+-*")), node(d - 1), node(d - 1)]

    t = node(draw(st.integers(0, 4)))
    n = draw(st.integers(0, 3))
    return {"tree": t, "target": ["out", [draw(st.sampled_from(INAMES)) for _ in range(n)]], "kind": "tree"}


def build_tree(t):
    from tensora.expression import ast as E

    if t[0] == "t":
        return E.Tensor(t[1], tuple(t[2]))
    if t[0] == "i":
        return E.Integer(t[1])
    if t[0] == "f":
        return E.Float(t[1])
    return {"+": E.Add, "-": E.Subtract, "*": E.Multiply}[t[0]](build_tree(t[1]), build_tree(t[2]))


# ------------------------------------------------------------------------------- checks
TYPED_FAILURES = {"ParseError", "MutatingAssignmentError", "InconsistentDimensionsError", "NameConflictError"}


def tree_equal(x, y):
    """Structural equality of two tensora assignments / expressions with an explicit stack (the dataclass-generated
    __eq__ recurses and exceeds the interpreter's recursion limit on a chain of 400 terms)."""
    from tensora.expression import ast as E

    stack = [(x, y)]
    while stack:
        a, b = stack.pop()
        if type(a) is not type(b):
            return False
        if isinstance(a, E.Assignment):
            stack.append((a.target, b.target))
            stack.append((a.expression, b.expression))
        elif isinstance(a, (E.Add, E.Subtract, E.Multiply)):
            stack.append((a.left, b.left))
            stack.append((a.right, b.right))
        elif isinstance(a, E.Tensor):
            if a.name != b.name or tuple(a.indexes) != tuple(b.indexes):
                return False
        elif isinstance(a, (E.Integer, E.Float)):
            if a.value != b.value:
                return False
        elif a != b:
            return False
    return True


def safe_parse(fn, text):
    """-> ('success', value) | ('failure', error) | ('raised', exc)"""
    from returns.result import Failure, Success

    try:
        r = fn(text)
    except RecursionError as e:
        return "raised", e
    except Exception as e:  # noqa: BLE001 - 'parsing never raises' is the property
        return "raised", e
    if isinstance(r, Success):
        return "success", r.unwrap()
    if isinstance(r, Failure):
        return "failure", r.failure()
    return "raised", TypeError(f"neither Success nor Failure: {r!r}")


def check_text(case, ctx=None):
    bridge.ensure_tensora()
    from tensora.expression import parse_assignment
    from tensora.expression.ast import Assignment
    from tensora.format import Format, parse_format, parse_named_format

    kind = case["kind"]
    fails = []
    labels = {f"kind:{kind}"}
    nontrivial = False
    if kind == "format_object":
        from tensora.format import Mode

        text = case["text"]
        want = Format(tuple(Mode.dense if m == "d" else Mode.compressed for m in case["modes"]), tuple(case["ordering"]))
        st_, v = safe_parse(parse_format, text)
        if st_ != "success" or v != want:
            fails.append(fail("format-text-misparsed", f"{text!r}: {st_} {v}"))
        d1 = want.deparse()
        st2, v2 = safe_parse(parse_format, d1)
        if st2 != "success" or v2 != want:
            fails.append(fail("format-round-trip", f"{want} prints as {d1!r}, which parses to {st2} {v2 if st2 != 'success' else v2.deparse()}"))
        st3, v3 = safe_parse(parse_named_format, "T1:" + d1)
        if st3 != "success" or v3 != ("T1", want):
            fails.append(fail("named-format-round-trip", f"'T1:{d1}': {st3} {v3}"))
        labels.add(f"format_order_{'10+' if len(case['modes']) >= 10 else 'lt10'}")
        return result(fails, labels, len(case["modes"]) >= 2 and case["ordering"] != sorted(case["ordering"]), jhash(text),
                      {"format": text})
    if kind == "tree":
        try:
            asg = Assignment(build_tree(["t"] + case["target"]), build_tree(case["tree"]))
        except Exception:  # noqa: BLE001 - invalid tree (name conflict etc.): not in the domain
            return result([], labels | {"tree_invalid_skipped"}, False, None, None)
        text = asg.deparse()
        st_, v = safe_parse(parse_assignment, text)
        if st_ != "success":
            fails.append(fail(f"deparsed-tree-does-not-parse:{st_}", f"{text!r}: {v}"))
        elif not tree_equal(v, asg):
            fails.append(fail("tree-round-trip", f"{text!r} parsed to {v.deparse()!r}"))
        else:
            nontrivial = text.count("(") > len(re.findall(r"[A-Za-z0-9]\(", text))
        return result(fails, labels, nontrivial, jhash(text), {"deparsed": text})
    text = case["text"]
    sample = {"text": text}
    # (1) nothing raises, results are typed
    outcomes = {}
    for name, fn, ty in (("assignment", parse_assignment, Assignment), ("format", parse_format, Format),
                         ("named_format", parse_named_format, tuple)):
        st_, v = safe_parse(fn, text)
        outcomes[name] = (st_, v)
        if st_ == "raised":
            fails.append(fail(f"parser-raises:{name}:{type(v).__name__}", f"{text!r}: {v}"[:300]))
        elif st_ == "success" and not isinstance(v, ty):
            fails.append(fail(f"success-of-wrong-type:{name}", f"{text!r}: {type(v).__name__}"))
        elif st_ == "failure" and name == "assignment" and type(v).__name__ not in TYPED_FAILURES:
            fails.append(fail(f"untyped-failure:{type(v).__name__}", f"{text!r}"))
    st_a, va = outcomes["assignment"]
    labels.add(f"assignment:{st_a}")
    # format round trip for anything accepted as a format
    st_f, vf = outcomes["format"]
    if st_f == "success":
        labels.add("format:success")
        st2, v2 = safe_parse(parse_format, vf.deparse())
        if st2 != "success" or v2 != vf:
            fails.append(fail("format-round-trip", f"{text!r} -> {vf.deparse()!r}"))
    if kind == "invalid":
        if st_a != "failure" or type(va).__name__ != case["expect"]:
            got = type(va).__name__ if st_a != "success" else "Success"
            fails.append(fail(f"invalid-assignment-not-rejected-as:{case['expect']}", f"{text!r}: got {got}"))
        return result(fails, labels | {f"expect:{case['expect']}"}, True, jhash(text), sample)
    if st_a == "success":
        # (2) round trip
        d1 = va.deparse()
        st2, v2 = safe_parse(parse_assignment, d1)
        if st2 != "success":
            fails.append(fail(f"deparsed-text-does-not-parse:{st2}", f"{text!r} -> {d1!r}: {v2}"))
        elif not tree_equal(v2, va):
            fails.append(fail("text-round-trip", f"{text!r} -> {d1!r} -> {v2.deparse()!r}"))
        # (3) meaning
        try:
            for salt in (1, 2):
                tgt, val, ev = eval_text(text, salt)
                got = fold_tree(va.expression, salt)
                if (va.target.name, tuple(va.target.indexes)) != tgt:
                    fails.append(fail("target-differs", f"{text!r}"))
                    break
                if got != val:
                    fails.append(fail("meaning-differs-from-text", f"{text!r}: tree folds to {got}, text evaluates to {val}"))
                    break
            ops = ev.ops
            mixed = "*" in ops and any(o in "+-" for o in ops)
            changes = False
            try:
                changes = strip_parens_value(text, 1) != val
            except TextError:
                changes = False
            nontrivial = (len(ops) >= 3 and mixed) or changes
            if changes:
                labels.add("parenthesis_changes_meaning")
            if any(re.search(r"[.eE]", n) for n in re.findall(r"(?<![A-Za-z0-9])\d[\d.eE+-]*", text.split("=", 1)[1])):
                labels.add("float_literal_spelling")
        except TextError as e:
            if kind == "sentence":
                raise bridge.HarnessError(f"harness evaluator rejects its own sentence {text!r}: {e}") from e
            # arbitrary text that tensora accepts but the harness grammar does not
            fails.append(fail("accepted-text-outside-documented-grammar", f"{text!r}: {e}"))
    elif kind == "sentence":
        fails.append(fail("valid-sentence-rejected", f"{text!r}: {va}"))
    return result(fails, labels, nontrivial, jhash(text), sample)


# ------------------------------------------------------------------------- long inputs
@st.composite
def long_sentences(draw, tier):
    """Valid sentences that are long in one direction only: one literal with hundreds of digits (beyond the range of a
    double, beyond 2^64), or a flat chain of up to 600 terms (no nesting in the text; the left fold makes the *tree*
    that deep).  'Any string yields a tree or a typed failure' covers these."""
    if draw(st.booleans()):
        n = draw(st.sampled_from([20, 39, 100, 308, 309, 310, 311, 400, 1200]))
        first = draw(st.sampled_from("123456789"))
        digits = first + "".join(draw(st.sampled_from("0123456789")) for _ in range(min(n - 1, 12))) + "0" * max(0, n - 13)
        shape = draw(st.sampled_from(["int", "int", "int", "frac", "exp", "zeros"]))
        if shape == "frac":
            lit = "0." + digits
        elif shape == "exp":
            lit = "1." + digits[:20] + "e" + draw(st.sampled_from(["-", "+", ""])) + draw(st.sampled_from(["5", "300", "307", "400", "99999"]))
        elif shape == "zeros":
            lit = "0" * draw(st.integers(1, 300)) + digits[:5]
        else:
            lit = digits
        op1, op2 = draw(st.sampled_from("+-*")), draw(st.sampled_from("+-*"))
        text = draw(st.sampled_from([f"out(i) = a(i) {op1} {lit}", f"out(i) = {lit} {op1} a(i) {op2} b(i)", f"out() = {lit}",
                                     f"out(i) = (a(i) {op1} {lit}) {op2} {lit}"]))
        # a floating-point literal beyond the double range may be refused (with a typed failure), everything else parses
        refusable = shape in ("frac", "exp") and float(lit) in (float("inf"),)
        return {"text": text, "kind": "long", "shape": "literal:" + shape, "may_be_refused": refusable}
    n = draw(st.sampled_from([60, 150, 300, 450, 600]))
    ops = draw(st.sampled_from(["+-", "*", "+-*", "+", "-"]))
    atoms = ["a(i)", "b()", "2", "c(i,j)", "1.5"]
    parts = [draw(st.sampled_from(atoms))]
    for _ in range(n - 1):
        parts.append(draw(st.sampled_from(ops)))
        parts.append(draw(st.sampled_from(atoms)))
    return {"text": "out(i) = " + " ".join(parts), "kind": "long", "shape": f"chain:{n}"}


def check_long(case, ctx=None):
    """check_text on a thread of its own: the interpreter's recursion limit is counted per thread, so the verdict does
    not depend on how deep the harness (Hypothesis, the runner) already is when the case is run."""
    import threading

    box = {}

    def body():
        # Hypothesis raises the (process-wide) recursion limit while a test body runs; the statement is about the
        # interpreter as a user has it, so the default limit of 1000 frames is put back for the duration of the case
        # (the main thread is parked in join() meanwhile)
        import sys

        saved = sys.getrecursionlimit()
        sys.setrecursionlimit(1000)
        try:
            box["res"] = check_text(dict(case, kind="arbitrary" if case.get("may_be_refused") else "sentence"))
        except RecursionError as e:  # the harness's own evaluator ran out of stack: not a verdict
            box["err"] = e
        finally:
            sys.setrecursionlimit(saved)

    old = threading.stack_size(256 << 20)
    try:
        t = threading.Thread(target=body)
        t.start()
        t.join()
    finally:
        threading.stack_size(old)
    if "err" in box:
        raise bridge.HarnessError(f"harness evaluator exceeded the recursion limit on {case['shape']}")
    res = box["res"]
    res["labels"] = sorted(set(res["labels"]) | {"long:" + case["shape"].split(":")[0], "long:" + case["shape"]})
    res["nontrivial"] = True
    res["sample"] = {"text": case["text"][:120] + ("..." if len(case["text"]) > 120 else ""), "length": len(case["text"])}
    return res


STREAMS = {
    "long": {"strategy": long_sentences, "check": check_long},
    "sentences": {"strategy": sentences, "check": check_text},
    "arbitrary": {"strategy": arbitrary_text, "check": check_text},
    "invalid": {"strategy": invalid_sentences, "check": check_text},
    "trees": {"strategy": trees, "check": check_text},
    "formats": {"strategy": format_objects, "check": check_text},
}


# ---------------------------------------------------------------- exhaustive format strings
def format_reference(s):
    """Documented grammar: mode* | (mode integer)* with the integers a permutation of 0..n-1."""
    if re.fullmatch(r"[ds]*", s):
        return True
    if not re.fullmatch(r"(?:[ds][0-9]+)*", s):
        return False
    nums = [int(x) for x in re.findall(r"[ds]([0-9]+)", s)]
    return sorted(nums) == list(range(len(nums)))


def format_task(task):
    prefix, max_len = task
    bridge.ensure_tensora()
    from tensora.format import parse_format

    stats = Stats()
    alphabet = "ds0123"
    for n in range(0, max_len - len(prefix) + 1):
        for tail in itertools.product(alphabet, repeat=n):
            s = prefix + "".join(tail)
            if len(prefix) < 2 and len(s) >= 2 and n > 0 and False:
                continue
            st_, v = safe_parse(parse_format, s)
            want = format_reference(s)
            fails = []
            if st_ == "raised":
                fails.append(fail(f"format-parser-raises:{type(v).__name__}", f"{s!r}"))
            elif (st_ == "success") != want:
                fails.append(fail("format-acceptance", f"{s!r}: parser says {st_}, documented grammar says {'accept' if want else 'reject'}"))
            elif st_ == "success":
                st2, v2 = safe_parse(parse_format, v.deparse())
                if st2 != "success" or v2 != v:
                    fails.append(fail("format-round-trip", f"{s!r} -> {v.deparse()!r}"))
            stats.evaluations += 1
            stats.classes["format:accepted" if st_ == "success" else "format:rejected"] += 1
            if want and len(s) >= 4 and re.search(r"\d", s):
                stats.nontrivial_keys.add(s)
                if len(stats.samples) < 2:
                    stats.samples.append({"format_string": s, "accepted": st_ == "success"})
            for f in fails:
                b = stats.buckets.setdefault(f["bucket"], {"count": 0, "examples": []})
                b["count"] += 1
                if len(b["examples"]) < 3:
                    b["examples"].append(({"text": s, "kind": "format"}, f["detail"], f["info"]))
    return stats


def replay(payload):
    case = payload["case"]
    if case.get("kind") == "format":
        st_ = format_task_single(case["text"])
        return st_
    if case.get("kind") == "long":
        return check_long(case)["fails"]
    return check_text(case)["fails"]


def format_task_single(s):
    from tensora.format import parse_format

    st_, v = safe_parse(parse_format, s)
    want = format_reference(s)
    if st_ == "raised":
        return [fail(f"format-parser-raises:{type(v).__name__}", s)]
    if (st_ == "success") != want:
        return [fail("format-acceptance", f"{s!r}")]
    return []


def atheris_campaign(chk, seconds, runs):
    """Coverage-guided fuzzing of the parsers (thorough tier).  A crash input is replayed by check_text."""
    script = os.path.join(VERIF, "tools", "fuzz_parse.py")
    deps = os.path.join(VERIF, ".deps")
    outdir = os.path.join(VERIF, "build", "atheris")
    os.makedirs(outdir, exist_ok=True)
    env = dict(os.environ)
    env["PYTHONPATH"] = os.pathsep.join([VERIF, bridge.REPO_SRC, deps, env.get("PYTHONPATH", "")])
    total = 0
    crashes = []
    procs = []
    for fn in os.listdir(outdir):
        if fn.startswith("found-"):
            os.remove(os.path.join(outdir, fn))
    env["FUZZ_FOUND_DIR"] = outdir
    for k in range(8):
        corpus = os.path.join(outdir, f"corpus{k}")
        if os.path.isdir(corpus):
            import shutil

            shutil.rmtree(corpus)
        os.makedirs(corpus)
        if k % 2 == 1:  # seeded corpus: strings from the repository's tests
            for j, s in enumerate(["y(i) = A(i,j) * x(j)", "a(i,j) = b(i,k) * c(k,j) + 1.5e3", "d1s0", "A:ds", "a() = 2 * (b() - c())"]):
                with open(os.path.join(corpus, f"seed{j}"), "w") as fh:
                    fh.write(s)
        cmd = [sys.executable, script, corpus, f"-max_total_time={seconds}", f"-runs={runs}", f"-seed={chk.seed * 100 + k + 1}",
               "-max_len=256" if k < 4 else "-max_len=2048", f"-artifact_prefix={outdir}/crash{k}-"]
        penv = dict(env)
        if k >= 4:
            penv["FUZZ_MODE"] = "hypothesis"  # half of the campaigns search through the structured generators
        procs.append(subprocess.Popen(cmd, env=penv, stdout=subprocess.PIPE, stderr=subprocess.STDOUT, text=True))
    for k, p in enumerate(procs):
        out, _ = p.communicate()
        m = re.findall(r"#(\d+)\s+DONE", out) or re.findall(r"stat::number_of_executed_units: (\d+)", out)
        if m:
            total += int(m[-1])
        if p.returncode != 0:
            if "No module named 'atheris'" in out or "ModuleNotFoundError" in out:
                chk.notes.append("atheris is not installed (.deps missing): coverage-guided campaign skipped")
                return 0
    for fn in sorted(os.listdir(outdir)):
        if fn.startswith("found-"):
            with open(os.path.join(outdir, fn)) as fh:
                crashes.append(json.load(fh))
    stats = Stats()
    for case in crashes:
        stats.add(case, check_text(case))
    chk.absorb(stats, kind="text")
    chk.coverage_extra["atheris_executions"] = total
    return total


def run(chk):
    quick = chk.tier == "quick"
    chk.absorb(run_stream(__name__, "sentences", chk.tier, chk.seed, 1600 if quick else 100000), kind="text")
    chk.absorb(run_stream(__name__, "arbitrary", chk.tier, chk.seed, 1600 if quick else 100000), kind="text")
    chk.absorb(run_stream(__name__, "invalid", chk.tier, chk.seed, 400 if quick else 10000), kind="text")
    chk.absorb(run_stream(__name__, "trees", chk.tier, chk.seed, 1200 if quick else 60000), kind="text")
    chk.absorb(run_stream(__name__, "formats", chk.tier, chk.seed, 800 if quick else 40000), kind="text")
    chk.absorb(run_stream(__name__, "long", chk.tier, chk.seed, 320 if quick else 6000), kind="text")
    max_len = 6 if quick else 8
    prefixes = ["".join(p) for p in itertools.product("ds0123", repeat=2)]
    tasks = [(p, max_len) for p in prefixes] + [("", 1)]
    chk.absorb(run_tasks(format_task, tasks), kind="text")
    chk.coverage_extra["exhaustive_subdomain"] = f"every string over {{d,s,0,1,2,3}} of length <= {max_len} through parse_format"
    if not quick:
        atheris_campaign(chk, 600, 20_000_000)
