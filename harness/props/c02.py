"""C02 - every returned tensor is a canonical, self-consistent stored tensor."""
from __future__ import annotations

from hypothesis import strategies as st

from .. import cases as C
from .. import gen, kcheck, kprops, shrink
from ..native.pool import Worker
from ..runner import fail, result, run_stream

PROP = "C02"
LEVEL = "exploration"
RULE = (
    "C01-style generated cases restricted by construction to outputs with >=1 compressed level, each run at "
    "initial capacities {1,2,3,default} on the IR abstract machine; the final heap must satisfy the C02 predicate "
    "with exact block lengths (len(pos)==parent+1, len(crd)==pos[-1], len(vals)>=nnz, all cells initialised, all "
    "blocks live, crd strictly increasing per segment and < dimension); the native LLVM result (capacity 2) "
    "is validated from its raw arrays and then pickled, converted with to_format, compared and fed to a dense "
    "copy kernel. non-trivial = kernel produced AND >=1 stored coordinate AND some compressed level has >=2 "
    "parent positions; distinct by case hash."
)
ASSUMPTIONS = [
    "initial capacity is set through tensora.iteration_graph.outputs._append.default_array_size (module global read at generation time)",
    "native arrays carry no length information, so exact lengths are only checked on the abstract machine",
]


@st.composite
def cases(draw, tier):
    return draw(gen.kernel_cases(max_leaves=4 if tier == "quick" else 5, sparse_output_bias=True, max_target=3, min_target=1, min_dim=1,
                                 order_choices=(1, 1, 2, 2, 2, 3)))


@st.composite
def lattice(draw, tier):
    return draw(gen.lattice_cases())


@st.composite
def hollow(draw, tier):
    return draw(gen.hollow_cases())


def setup(tier, seed, shard):
    return {"worker": Worker(module="harness.native.worker2")}


def teardown(ctx):
    ctx["worker"].close()


def check(case, ctx=None):
    labels = set(gen.case_features(case))
    fails = []
    produced = False
    nontrivial = False
    extra = {}
    oname = case["target"][0]
    modes, ordering = C.fmt_parts(case["formats"][oname])
    if "s" not in modes:
        labels.add("dense_output_skipped")
        return result([], labels, False, kcheck.case_id(case), None)
    trapped = False
    for cap in kprops.CAPACITIES:
        obs = kprops.evaluate_at(case, cap)
        if obs["status"] != "ok":
            labels.add(f"{obs['status']}:{obs['why'] if isinstance(obs['why'], str) else obs['why'][0]}")
            break
        produced = True
        extra["kernel_runs"] = extra.get("kernel_runs", 0) + 1
        if obs["fails"]:
            fails += obs["fails"]
            trapped = True
            break
        if obs["m"].grow_reallocs:
            labels.add("growth_branch_taken")
            extra["runs_with_growth"] = extra.get("runs_with_growth", 0) + 1
        vf = kprops.validity_fails(obs)
        fails += vf
        if vf:
            break
        stored = obs["stored"]
        if stored:
            # parent positions of some compressed level >= 2 ?
            n = 1
            for l, md in enumerate(modes):
                if md == "s":
                    if n >= 2:
                        nontrivial = True
                    n = obs["arrays"][l][0][-1]
                else:
                    n *= case["sizes"][case["target"][1][ordering[l]]]
    if produced and not fails and ctx is not None:
        c2 = kprops.with_capacity(case, 2)
        rep = ctx["worker"].call({"op": "evaluate_roundtrip", "case": c2, "capacity": 2})
        if "crash" in rep:
            fails.append(fail("native:crash", f"{kprops.ctx_desc(case, 2)}: {rep['crash']}"))
        elif "error" in rep:
            raise kcheck.bridge.HarnessError(rep["error"] + rep.get("trace", ""))
        elif "refused" in rep or "raised" in rep:
            fails.append(fail("native:" + ("refused" if "refused" in rep else "raised") + ":" + rep.get("refused", rep.get("raised")),
                              f"{kprops.ctx_desc(case, 2)}: {rep['message']}"))
        else:
            raw = rep["raw"]
            if raw["problem"]:
                fails.append(fail("native-invalid:" + raw["problem"].split(" ")[0], f"{kprops.ctx_desc(case, 2)}: {raw['problem']}"))
            else:
                errs = C.validate_arrays(raw["dims"], raw["ordering"], raw["modes"], raw["levels"], len(raw["vals"]))
                for e in errs[:1]:
                    fails.append(fail(f"native-invalid:{e[0]}", f"{kprops.ctx_desc(case, 2)}: {e}"))
                if not errs:
                    for k, v in rep["hence"].items():
                        if v != "ok":
                            fails.append(fail(f"hence:{k}", f"{kprops.ctx_desc(case, 2)}: {v}"))
                    extra["native_roundtrips"] = 1
    labels.add("kernel_ok" if produced and not trapped else "no_kernel")
    return result(fails, labels, nontrivial and produced, kcheck.case_id(case), kcheck.sample_of(case), extra)


STREAMS = {
    "main": {"strategy": cases, "check": check, "setup": setup, "teardown": teardown},
    "lattice": {"strategy": lattice, "check": check, "setup": setup, "teardown": teardown},
    "hollow": {"strategy": hollow, "check": check, "setup": setup, "teardown": teardown},
}


def shrink_case(case, bucket):
    pred = lambda c: any(f["bucket"] == bucket for f in check(c, None)["fails"])  # noqa: E731
    if not pred(case):
        return case
    return shrink.minimise_kernel_case(case, pred)[0]


def replay(payload):
    w = Worker(module="harness.native.worker2")
    try:
        return check(payload["case"], {"worker": w})["fails"]
    finally:
        w.close()


def run(chk):
    n = 320 if chk.tier == "quick" else 25000
    chk.absorb(run_stream(__name__, "main", chk.tier, chk.seed, n), shrink=shrink_case)
    chk.absorb(run_stream(__name__, "lattice", chk.tier, chk.seed, n), shrink=shrink_case)
    chk.absorb(run_stream(__name__, "hollow", chk.tier, chk.seed, n // 2), shrink=shrink_case)


def health(cov):
    p = []
    runs = cov["counters"].get("kernel_runs", 0)
    if runs and cov["counters"].get("runs_with_growth", 0) < 0.2 * runs:
        p.append("growth branch taken in fewer than 20% of kernel runs")
    return p
