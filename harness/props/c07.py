"""C07 - peephole optimisation never changes what a kernel computes."""
from __future__ import annotations

import math

from hypothesis import strategies as st

from .. import bridge
from .. import cases as C
from .. import gen, kcheck, kprops
from ..machine import Interp, Machine, Ptr, TensorStruct, Trap
from ..runner import fail, jhash, result, run_stream

PROP = "C07"
LEVEL = "exploration"
RULE = (
    "(a) every generated kernel module [evaluate, assemble, compute] is built twice - with tensora's peephole "
    "pass and with the pass replaced by the identity - and both are run on the IR abstract machine on the same "
    "inputs. (b) Hypothesis-generated well-typed IR statement trees (declarations with fresh names, assignments "
    "incl. self-assignment, array stores, blocks, branches, bounded loops, early returns; expressions over "
    "literals {0,1,2,0.0,1.0,k.5,true,false}, typed variables, reflexive comparisons, and/or, min/max, "
    "BooleanToInteger; depth<=4) on 4 small environments each. Oracle: whenever the original runs to completion "
    "without a trap, the optimised program returns the same value, leaves every heap block with numerically equal "
    "contents and its access set (block, offset, read/write) is a subset of the original's. non-trivial = the "
    "optimiser changed the tree AND the original ran to completion on >=1 environment; distinct by hash of the "
    "original tree. Rule-hit histogram in classes (rule:*)."
)
ASSUMPTIONS = [
    "programs whose original traps or exceeds the step budget are discarded (precondition 'runs safely'); the "
    "discard count is reported",
    "generated declarations have fresh names and uses stay inside the declaring arm, so programs are valid under "
    "both C block scoping and LLVM's hoisted allocas",
    "floating-point results compared with == (so -0.0 equals 0.0, as the property allows); environments are finite",
]


# --------------------------------------------------------------------------- (a) kernels
@st.composite
def kernel_cases(draw, tier):
    c = draw(gen.kernel_cases(max_leaves=4 if tier == "quick" else 5, sparse_output_bias=draw(st.booleans())))
    c["capacity"] = draw(st.sampled_from([1, 2, None]))
    return c


def run_history(case, fns, log=True):
    """evaluate; assemble; compute on the machine.  -> dict of observations, raises Trap."""
    obs = {}
    m, structs, rv = bridge.run_on_machine(case, fns["evaluate"], log_access=log)
    st_ = structs[case["target"][0]]
    obs["evaluate"] = (rv, heap_image(m), set(m.access), m.steps)
    m2, structs2, rv2 = bridge.run_on_machine(case, fns["assemble"], log_access=log)
    st2 = structs2[case["target"][0]]
    obs["assemble"] = (rv2, heap_image(m2), set(m2.access), m2.steps)
    m2.access = set()
    _m, _s, rv3 = bridge.run_on_machine(case, fns["compute"], machine=m2, output_struct=st2, log_access=log)
    obs["compute"] = (rv3, heap_image(m2), set(m2.access), m2.steps)
    return obs


def heap_image(m):
    """Live blocks in allocation order: (role, length, cells) with floats kept as floats."""
    def cell(v):
        if isinstance(v, Ptr):
            return ("ptr", None if v.block is None else (v.block.role, v.block.id), v.off)
        return v

    return [(b.role, b.length, {k: cell(v) for k, v in b.cells.items()}) for b in m.blocks if b.live]


def images_equal(a, b):
    if len(a) != len(b):
        return False
    for (r1, l1, c1), (r2, l2, c2) in zip(a, b):
        if r1 != r2 or l1 != l2 or c1.keys() != c2.keys():
            return False
        for k, v in c1.items():
            w = c2[k]
            if isinstance(v, float) or isinstance(w, float):
                if not (v == w):
                    return False
            elif v != w:
                return False
    return True


def check_kernel(case, ctx=None):
    labels = set(gen.case_features(case))
    kinds = ("evaluate", "assemble", "compute")
    s1, opt = bridge.build_module(case, kinds, capacity=case.get("capacity"), optimise=True)
    s0, raw = bridge.build_module(case, kinds, capacity=case.get("capacity"), optimise=False)
    if s1 != s0:
        return result([fail("optimiser-changes-generation-status", f"{kprops.ctx_desc(case)}: {s0} vs {s1}")], labels,
                      False, kcheck.case_id(case), None)
    if s1 != "ok":
        w = opt if isinstance(opt, str) else opt[0]
        return result([], labels | {f"{s1}:{w}"}, False, kcheck.case_id(case), None)
    f1, f0 = bridge.functions_of(opt), bridge.functions_of(raw)
    d = kprops.ctx_desc(case, case.get("capacity"))
    try:
        o0 = run_history(case, f0)
    except Trap as t:
        return result([], labels | {f"original-traps:{t.kind}"}, False, kcheck.case_id(case), None,
                      {"discarded_original_unsafe": 1})
    fails = []
    try:
        o1 = run_history(case, f1)
    except Trap as t:
        fails.append(fail(f"kernel:optimised-traps:{t.kind}", f"{d}: {t.msg}"))
        o1 = None
    if o1 is not None:
        for k in kinds:
            rv0, img0, acc0, _ = o0[k]
            rv1, img1, acc1, _ = o1[k]
            if rv0 != rv1:
                fails.append(fail("kernel:return-value", f"{d}: {k}: {rv0} vs {rv1}"))
            elif not images_equal(img0, img1):
                fails.append(fail("kernel:heap-differs", f"{d}: {k}"))
            elif not acc1 <= acc0:
                fails.append(fail("kernel:extra-access", f"{d}: {k}: {sorted(acc1 - acc0)[:4]}"))
    changed = opt != raw
    labels.add("kernel_changed_by_optimiser" if changed else "kernel_unchanged")
    s = kcheck.sample_of(case)
    s["statements_saved"] = None if o1 is None else o0["evaluate"][3] - o1["evaluate"][3]
    return result(fails, labels, changed, kcheck.case_id(case), s, {"kernel_pairs": 1})


# ------------------------------------------------------------------------ (b) IR programs
INT_LITS = [0, 0, 1, 1, 2]
FLT_LITS = [0.0, 0.0, 1.0, 1.0, 0.5, 1.5, 2.5, 3.5, 0.1, 3.0]
INT_ENV = ["x0", "x1", "x2", "x3"]
FLT_ENV = ["f0", "f1", "f2", "f3"]
N_OUT = 6
N_INT = 4


def int_cell(draw):
    """An element of the writable int array t->mode_ordering (N_INT cells holding 0..N_INT-1): constant index, or an
    index read from the array itself (a[a[c]]), so that a store can change what a later, textually equal, target
    expression denotes."""
    c = ["int", draw(st.integers(0, N_INT - 1))]
    if draw(st.integers(0, 2)) == 0:
        return ["aidx", "mode_ordering", ["aidx", "mode_ordering", c]]
    return ["aidx", "mode_ordering", c]


@st.composite
def expr(draw, ty, depth, scope):
    """scope: {'int': [names], 'float': [...], 'bool': [...]}"""
    # syntactic-equality rewrites (x == x, a = e; a = e2, (a <= b) && (a >= b) ...) only fire when the *same*
    # sub-expression occurs twice, which independent draws almost never produce: one draw in six re-uses an
    # expression generated earlier for the same type whose variables are still in scope
    pool = scope.setdefault("_pool", {"int": [], "float": [], "bool": []})
    if pool[ty] and draw(st.integers(0, 5)) == 0:
        names = set(scope["int"]) | set(scope["float"]) | set(scope["bool"])
        ok = [e for e in pool[ty][-12:] if vars_of(e) <= names and expr_depth(e) <= depth + 1]
        if ok:
            return draw(st.sampled_from(ok))
    e = draw(_expr(ty, depth, scope))
    if not (e[0] in ("int", "flt", "bool")):
        pool[ty].append(e)
    return e


def vars_of(e):
    if e[0] == "var":
        return {e[1]}
    out = set()
    for c in e[1:]:
        if isinstance(c, list):
            out |= vars_of(c)
    return out


def expr_depth(e):
    return 1 + max([expr_depth(c) for c in e[1:] if isinstance(c, list)] or [0])


@st.composite
def _expr(draw, ty, depth, scope):
    leafy = depth == 0 or draw(st.integers(0, 9)) < 3
    if ty == "int":
        if leafy:
            r = draw(st.integers(0, 10))
            if r < 5 and scope["int"]:
                return ["var", draw(st.sampled_from(scope["int"]))]
            if r < 6:
                return ["aidx", "dimensions", ["int", draw(st.integers(0, 3))]]
            if r < 7:
                return int_cell(draw)
            return ["int", draw(st.sampled_from(INT_LITS))]
        r = draw(st.integers(0, 11))
        if r < 7:
            return [draw(st.sampled_from(["Add", "Subtract", "Multiply"])), draw(expr("int", depth - 1, scope)),
                    draw(expr("int", depth - 1, scope))]
        if r < 9:
            return [draw(st.sampled_from(["Min", "Max"])), draw(expr("int", depth - 1, scope)),
                    draw(expr("int", depth - 1, scope))]
        return ["b2i", draw(expr("bool", depth - 1, scope))]
    if ty == "float":
        if leafy:
            r = draw(st.integers(0, 9))
            if r < 5 and scope["float"]:
                return ["var", draw(st.sampled_from(scope["float"]))]
            if r < 6:
                return ["aidx", "vals", ["int", draw(st.integers(0, 3))]]
            return ["flt", draw(st.sampled_from(FLT_LITS))]
        op = draw(st.sampled_from(["Add", "Subtract", "Multiply"]))
        k = draw(st.integers(0, 4))
        lt, rt = [("float", "float"), ("float", "float"), ("float", "float"), ("int", "float"), ("float", "int")][k]
        return [op, draw(expr(lt, depth - 1, scope)), draw(expr(rt, depth - 1, scope))]
    if leafy:
        r = draw(st.integers(0, 9))
        if r < 4 and scope["bool"]:
            return ["var", draw(st.sampled_from(scope["bool"]))]
        if r < 7:
            return ["bool", draw(st.booleans())]
        # reflexive comparison on the same variable / expression
        t2 = draw(st.sampled_from(["int", "float"]))
        e = draw(expr(t2, 0, scope))
        return [draw(st.sampled_from(["Equal", "NotEqual", "LessThan", "GreaterThan", "LessThanOrEqual",
                                      "GreaterThanOrEqual"])), e, e]
    r = draw(st.integers(0, 9))
    if r < 4:
        t2 = draw(st.sampled_from(["int", "int", "float"]))
        op = draw(st.sampled_from(["Equal", "NotEqual", "LessThan", "GreaterThan", "LessThanOrEqual", "GreaterThanOrEqual"]))
        l = draw(expr(t2, depth - 1, scope))
        rr = l if draw(st.integers(0, 4)) == 0 else draw(expr(t2, depth - 1, scope))
        return [op, l, rr]
    if r < 6:
        # two comparisons over the same operand pair (possibly swapped): a <= b && a >= b, a < b || b < a, ...
        t2 = draw(st.sampled_from(["int", "int", "float"]))
        a, b = draw(expr(t2, max(depth - 2, 0), scope)), draw(expr(t2, max(depth - 2, 0), scope))
        cmp_ = ["Equal", "NotEqual", "LessThan", "GreaterThan", "LessThanOrEqual", "GreaterThanOrEqual"]
        c1 = [draw(st.sampled_from(cmp_)), a, b]
        c2 = [draw(st.sampled_from(cmp_))] + ([a, b] if draw(st.integers(0, 2)) else [b, a])
        return [draw(st.sampled_from(["And", "Or"])), c1, c2]
    return [draw(st.sampled_from(["And", "Or"])), draw(expr("bool", depth - 1, scope)), draw(expr("bool", depth - 1, scope))]


@st.composite
def statements(draw, depth, scope, counter, in_loop=False):
    """A list of statements; ``scope`` is copied on entry to nested arms so uses stay in scope."""
    out = []
    n = draw(st.integers(0, 4 if depth > 0 else 3))
    for _ in range(n):
        r = draw(st.integers(0, 19))
        if r < 4:  # declaration + assignment
            ty = draw(st.sampled_from(["int", "float", "bool"]))
            name = f"v{counter[0]}"
            counter[0] += 1
            out.append(["declassign", ty, name, draw(expr(ty, draw(st.integers(0, 3)), scope))])
            scope[ty] = scope[ty] + [name]
        elif r < 5:  # bare declaration followed (maybe) by assignment
            ty = draw(st.sampled_from(["int", "float"]))
            name = f"v{counter[0]}"
            counter[0] += 1
            out.append(["decl", ty, name])
            out.append(["assign", ["var", name], draw(expr(ty, 2, scope))])
            scope[ty] = scope[ty] + [name]
        elif r < 8:  # assignment to an existing variable (sometimes to itself)
            ty = draw(st.sampled_from(["int", "float", "bool"]))
            own = [v for v in scope[ty] if v.startswith("v")]
            if own:
                name = draw(st.sampled_from(own))
                if draw(st.integers(0, 5)) == 0:
                    out.append(["assign", ["var", name], ["var", name]])
                else:
                    out.append(["assign", ["var", name], draw(expr(ty, draw(st.integers(0, 3)), scope))])
                    if draw(st.integers(0, 4)) == 0:
                        out.append(["assign", ["var", name], draw(expr(ty, draw(st.integers(0, 2)), scope))])
        elif r < 11:  # array store
            k = draw(st.integers(4, 4 + N_OUT - 1))
            idx = ["int", k] if draw(st.integers(0, 3)) else ["Add", ["int", k], ["Multiply", draw(expr("int", 1, scope)), ["int", 0]]]
            ety = draw(st.sampled_from(["float", "float", "int"]))
            out.append(["assign", ["aidx", "vals", idx], draw(expr(ety, draw(st.integers(0, 3)), scope))])
            if draw(st.integers(0, 4)) == 0:  # overwritten at once (a dead store unless the value reads it)
                out.append(["assign", ["aidx", "vals", idx], draw(expr(ety, draw(st.integers(0, 2)), scope))])
        elif r < 12:  # store into the int array; the stored value stays a valid index (0..N_INT-1) half of the time
            tgt = int_cell(draw)
            val = ["int", draw(st.integers(0, N_INT - 1))] if draw(st.booleans()) else \
                ["Min", ["Max", draw(expr("int", 1, scope)), ["int", 0]], ["int", N_INT - 1]]
            out.append(["assign", tgt, val])
            if draw(st.integers(0, 1)) == 0:  # the same target expression again: may denote another cell by now
                out.append(["assign", tgt, ["int", draw(st.integers(0, N_INT - 1))] if draw(st.booleans()) else draw(expr("int", 1, scope))])
        elif r < 13:  # self store  vals[k] = vals[k]
            k = draw(st.integers(4, 4 + N_OUT - 1))
            out.append(["assign", ["aidx", "vals", ["int", k]], ["aidx", "vals", ["int", k]]])
        elif r < 15 and depth > 0:  # block
            inner = draw(statements(depth - 1, scope, counter, in_loop))
            out.append(["block", inner, draw(st.sampled_from([None, None, "comment"]))])
        elif r < 18 and depth > 0:  # branch
            cond = draw(expr("bool", draw(st.integers(0, 2)), scope))
            shape = draw(st.integers(0, 9))
            if shape < 2:
                # an arm that is empty, or becomes empty only after optimisation, next to a non-empty one
                k = 4 + draw(st.integers(0, N_OUT - 1))
                hollow = draw(st.sampled_from([[], [["assign", ["aidx", "vals", ["int", k]], ["aidx", "vals", ["int", k]]]],
                                               [["block", [], "comment"]], [["loop", ["bool", False], []]]]))
                k2 = 4 + draw(st.integers(0, N_OUT - 1))
                solid = [["assign", ["aidx", "vals", ["int", k2]], draw(expr("float", 1, scope))]]
                a, b = (hollow, solid) if shape == 0 else (solid, hollow)
            else:
                a = draw(statements(depth - 1, dict(scope), counter, in_loop))
                b = draw(statements(depth - 1, dict(scope), counter, in_loop)) if draw(st.booleans()) else []
            out.append(["branch", cond, a, b])
        elif r < 19 and depth > 0:  # bounded loop
            name = f"c{counter[0]}"
            counter[0] += 1
            bound = draw(st.integers(0, 3))
            cond_kind = draw(st.integers(0, 5))
            if cond_kind == 0:
                cond = ["bool", False]
            elif cond_kind == 1:
                cond = ["And", ["LessThan", ["var", name], ["int", bound]], draw(expr("bool", 1, scope))]
            else:
                cond = ["LessThan", ["var", name], ["int", bound]]
            body = draw(statements(depth - 1, dict(scope), counter, True))
            shape = draw(st.integers(0, 7))
            pre = []
            if shape == 0 and bound >= 1:
                # 'retry': the counter is also stepped back, once, inside the body (a flag keeps the loop finite) - a
                # loop recognised by its init / bound / trailing increment alone does not run 'bound' times
                flag = f"v{counter[0]}"
                counter[0] += 1
                pre.append(["declassign", "int", flag, ["int", 0]])
                k = 4 + draw(st.integers(0, N_OUT - 1))
                retry = ["branch", ["Equal", ["var", flag], ["int", 0]],
                         [["assign", ["var", flag], ["int", 1]], ["assign", ["var", name], ["Subtract", ["var", name], ["int", 1]]]], []]
                count = ["assign", ["aidx", "vals", ["int", k]], ["Add", ["aidx", "vals", ["int", k]], ["flt", 1.0]]]
                k2 = draw(st.integers(0, len(body)))  # (statements are never duplicated: every declaration keeps a fresh name)
                body = [count] + body[:k2] + [retry] + body[k2:]
            elif shape == 1 and scope["int"]:
                # a fact established before the loop (v is a copy of x / v is a constant) is used inside the loop *before*
                # it is destroyed there: only the second trip sees the difference (loop back edge)
                x = draw(st.sampled_from(scope["int"]))
                v = f"v{counter[0]}"
                counter[0] += 1
                pre.append(["declassign", "int", v, ["var", x] if draw(st.integers(0, 2)) else ["int", draw(st.sampled_from(INT_LITS))]])
                cmp_ = draw(st.sampled_from(["Equal", "NotEqual", "LessThan", "GreaterThan", "LessThanOrEqual", "GreaterThanOrEqual"]))
                k = 4 + draw(st.integers(0, N_OUT - 1))
                rhs = ["var", x] if pre[-1][3][0] == "var" else pre[-1][3]
                use = ["assign", ["aidx", "vals", ["int", k]],
                       ["Add", ["aidx", "vals", ["int", k]], ["b2i", [cmp_, ["var", v], rhs] if draw(st.booleans()) else [cmp_, rhs, ["var", v]]]]]
                kill = ["assign", ["var", v], ["Add", ["var", v], ["int", draw(st.sampled_from([1, 1, 2, -1]))]]]
                body = [use] + body + [kill]
                if draw(st.integers(0, 2)) == 0:
                    cond = ["And", cond, [draw(st.sampled_from(["LessThanOrEqual", "Equal", "GreaterThanOrEqual"])), ["var", v], rhs]] \
                        if cond[0] != "bool" else cond
                bound = max(bound, 2)
                if cond[0] == "LessThan":
                    cond = ["LessThan", ["var", name], ["int", bound]]
            out.extend(pre)
            out.append(["declassign", "int", name, ["int", 0]])
            out.append(["loop", cond, body + [["assign", ["var", name], ["Add", ["var", name], ["int", 1]]]]])
            if draw(st.integers(0, 9)) == 0:
                out.append(["loop", ["bool", False], []])
        elif depth > 0 and not in_loop and draw(st.integers(0, 3)) == 0:  # early return inside a branch
            out.append(["branch", draw(expr("bool", 1, scope)), [["return", draw(expr("int", 1, scope))]], []])
    return out


@st.composite
def ir_programs(draw, tier):
    scope = {"int": list(INT_ENV), "float": list(FLT_ENV), "bool": []}
    counter = [0]
    body = draw(statements(3 if tier == "quick" else 4, scope, counter))
    ret = draw(expr("int", 1, scope))
    envs = []
    for _ in range(4):
        envs.append({
            "ints": [draw(st.integers(-3, 3)) for _ in range(4)],
            "iarr": [draw(st.integers(0, N_INT - 1)) for _ in range(N_INT)],
            # dyadic values keep most programs exact; the others (0.1, 1/3, 1e-300, 1e200, ...) expose rewrites that
            # are only equal up to rounding or that overflow/underflow differently
            "floats": [draw(st.sampled_from([0.0, 1.0, -1.5, 0.5, 2.25, 3.0, -2.0, 0.125, 0.1, 1 / 3, 0.7, 1e-300, 1e200,
                                            123456.789, -0.3])) for _ in range(4)],
        })
    return {"body": body, "ret": ret, "envs": envs}


def to_ir_expr(e):
    from tensora.ir import ast as A

    k = e[0]
    if k == "var":
        return A.Variable(e[1])
    if k == "int":
        return A.IntegerLiteral(e[1])
    if k == "flt":
        return A.FloatLiteral(e[1])
    if k == "bool":
        return A.BooleanLiteral(e[1])
    if k == "b2i":
        return A.BooleanToInteger(to_ir_expr(e[1]))
    if k == "aidx":
        return A.Variable("t").attr(e[1]).idx(to_ir_expr(e[2]))
    return getattr(A, k)(to_ir_expr(e[1]), to_ir_expr(e[2]))


def to_ir_stmt(s):
    from tensora.ir import ast as A
    from tensora.ir import types as T

    TY = {"int": T.integer, "float": T.float, "bool": T.boolean}
    k = s[0]
    if k == "declassign":
        return A.DeclarationAssignment(A.Declaration(A.Variable(s[2]), TY[s[1]]), to_ir_expr(s[3]))
    if k == "decl":
        return A.Declaration(A.Variable(s[2]), TY[s[1]])
    if k == "assign":
        return A.Assignment(to_ir_expr(s[1]), to_ir_expr(s[2]))
    if k == "block":
        return A.Block([to_ir_stmt(x) for x in s[1]], s[2])
    if k == "branch":
        return A.Branch(to_ir_expr(s[1]), A.Block([to_ir_stmt(x) for x in s[2]]), A.Block([to_ir_stmt(x) for x in s[3]]))
    if k == "loop":
        return A.Loop(to_ir_expr(s[1]), A.Block([to_ir_stmt(x) for x in s[2]]))
    if k == "return":
        return A.Return(to_ir_expr(s[1]))
    raise ValueError(k)


def program_function(prog):
    from tensora.ir import ast as A
    from tensora.ir import types as T

    t = A.Variable("t")
    body = []
    for k, nm in enumerate(INT_ENV):
        body.append(A.Variable(nm).declare(T.integer).assign(t.attr("dimensions").idx(k)))
    for k, nm in enumerate(FLT_ENV):
        body.append(A.Variable(nm).declare(T.float).assign(t.attr("vals").idx(k)))
    body.append(A.Block([to_ir_stmt(s) for s in prog["body"]], "generated"))
    body.append(A.Return(to_ir_expr(prog["ret"])))
    return A.FunctionDefinition(A.Variable("evaluate"), [A.Declaration(t, T.Pointer(T.tensor))], T.integer, A.Block(body))


def run_program(fn, env, scoping="c"):
    m = Machine(budget=20000)
    m.log_access = True
    st_ = TensorStruct("t", writable=False)
    st_.fields["dimensions"] = Ptr(m.new_block("int", 4, "input", "t.dimensions", list(env["ints"])))
    st_.fields["mode_ordering"] = Ptr(m.new_block("int", N_INT, "struct", "t.mode_ordering", list(env.get("iarr", [0] * N_INT))))
    st_.fields["vals"] = Ptr(m.new_block("float", 4 + N_OUT, "struct", "t.vals", list(env["floats"]) + [0.0] * N_OUT))
    rv = Interp(m, output_name="t", scoping=scoping).run(fn, [st_])
    if m.nonfinite_seen:
        raise Trap("non-finite", "a floating-point operation produced inf or nan")
    return rv, heap_image(m), set(m.access), m.steps


RULES = ["add_zero", "minus_zero", "multiply_zero", "multiply_one", "equal_same", "not_equal_same", "and_true",
         "and_false", "or_true", "or_false", "boolean_cast_constant", "branch_true", "branch_false", "loop_false",
         "empty_block", "redundant_assignment"]


def rule_hits(fn, opt):
    """Which documented rules have a matching redex in the original (after optimising the children)."""
    from tensora.ir import ast as A
    from tensora.ir import peephole_statement
    from tensora.ir._peephole import peephole_expression as pe

    hits = set()
    Z = (A.IntegerLiteral(0), A.FloatLiteral(0.0))
    ONE = (A.IntegerLiteral(1), A.FloatLiteral(1.0))
    T_, F_ = A.BooleanLiteral(True), A.BooleanLiteral(False)

    def ex(e):
        for name in ("left", "right", "expression", "target", "index", "n_elements", "old"):
            c = getattr(e, name, None)
            if isinstance(c, A.Expression):
                ex(c)
        if isinstance(e, (A.Add, A.Subtract, A.Multiply, A.And, A.Or, A.Equal, A.NotEqual, A.LessThan, A.GreaterThan,
                          A.LessThanOrEqual, A.GreaterThanOrEqual)):
            l, r = pe(e.left), pe(e.right)
            if isinstance(e, A.Add) and (l in Z or r in Z):
                hits.add("add_zero")
            if isinstance(e, A.Subtract) and r in Z:
                hits.add("minus_zero")
            if isinstance(e, A.Multiply):
                if l in Z or r in Z:
                    hits.add("multiply_zero")
                elif l in ONE or r in ONE:
                    hits.add("multiply_one")
            if isinstance(e, (A.Equal, A.LessThanOrEqual, A.GreaterThanOrEqual)) and l == r:
                hits.add("equal_same")
            if isinstance(e, (A.NotEqual, A.LessThan, A.GreaterThan)) and l == r:
                hits.add("not_equal_same")
            if isinstance(e, A.And):
                if l == F_ or r == F_:
                    hits.add("and_false")
                elif l == T_ or r == T_:
                    hits.add("and_true")
            if isinstance(e, A.Or):
                if l == T_ or r == T_:
                    hits.add("or_true")
                elif l == F_ or r == F_:
                    hits.add("or_false")
        if isinstance(e, A.BooleanToInteger) and pe(e.expression) in (T_, F_):
            hits.add("boolean_cast_constant")

    def stt(s):
        if isinstance(s, A.Block):
            for x in s.statements:
                stt(x)
                y = peephole_statement(x)
                if isinstance(y, A.Block) and y.is_empty():
                    hits.add("empty_block")
        elif isinstance(s, A.Branch):
            ex(s.condition)
            c = pe(s.condition)
            if c == T_:
                hits.add("branch_true")
            if c == F_:
                hits.add("branch_false")
            stt(s.if_true)
            stt(s.if_false)
        elif isinstance(s, A.Loop):
            ex(s.condition)
            if pe(s.condition) == F_:
                hits.add("loop_false")
            stt(s.body)
        elif isinstance(s, A.Assignment):
            ex(s.value)
            ex(s.target)
            if pe(s.target) == pe(s.value):
                hits.add("redundant_assignment")
        elif isinstance(s, A.DeclarationAssignment):
            ex(s.value)
        elif isinstance(s, A.Return):
            ex(s.value)

    stt(fn.body)
    return hits


def check_program(prog, ctx=None):
    from tensora.ir import peephole_function_definition

    fn = program_function(prog)
    try:
        opt = peephole_function_definition(fn)
    except Exception as e:  # noqa: BLE001
        return result([fail(f"program:optimiser-raises:{type(e).__name__}", f"{e}")], set(), False, jhash(repr(fn)), None)
    changed = opt != fn
    fails = []
    ran = 0
    discarded = 0
    for env in prog["envs"]:
        try:
            rv0, img0, acc0, steps0 = run_program(fn, env)
        except Trap:
            discarded += 1
            continue
        ran += 1
        try:
            rv1, img1, acc1, steps1 = run_program(opt, env)
        except Trap as t:
            fails.append(fail(f"program:optimised-traps:{t.kind}", f"env {env}: {t.msg}", env=env))
            continue
        if rv0 != rv1:
            fails.append(fail("program:return-value", f"env {env}: {rv0} vs {rv1}", env=env))
        elif not images_equal(img0, img1):
            fails.append(fail("program:heap-differs", f"env {env}: {img0[-1][2]} vs {img1[-1][2]}", env=env))
        elif not acc1 <= acc0:
            fails.append(fail("program:extra-access", f"env {env}: {sorted(acc1 - acc0)[:4]}", env=env))
    labels = {f"rule:{r}" for r in rule_hits(fn, opt)} if changed else set()
    labels.add("program_changed" if changed else "program_unchanged")
    if ran == 0:
        labels.add("all_envs_discarded")
    seen = set()
    uniq = [f for f in fails if not (f["bucket"] in seen or seen.add(f["bucket"]))]
    from tensora.codegen._ir_to_c import ir_to_c_function_definition

    try:
        txt = ir_to_c_function_definition(fn)
    except Exception:  # noqa: BLE001
        txt = repr(fn)
    sample = {"program_c_like": txt[-900:], "env": prog["envs"][0]}
    return result(uniq, labels, changed and ran > 0, jhash(txt), sample,
                  {"program_runs": ran, "discarded_original_unsafe": discarded, "programs": 1})


STREAMS = {
    "kernels": {"strategy": kernel_cases, "check": check_kernel},
    "programs": {"strategy": ir_programs, "check": check_program},
}


# ------------------------------------------------- (c) enumerated small patterns (finite, exhaustive)
CMP = ["Equal", "NotEqual", "LessThan", "GreaterThan", "LessThanOrEqual", "GreaterThanOrEqual"]
ENUM_ENVS = [{"ints": [a, b, 1, 0], "iarr": [0, 1, 2, 3], "floats": [fa, fb, 0.1, 1e200]}
             for (a, b), (fa, fb) in zip([(1, 1), (0, 1), (2, 1), (-1, -1), (0, 0), (-2, 3)],
                                         [(0.5, 0.5), (0.0, 1.0), (2.25, 1.0), (-1.5, -1.5), (0.0, 0.0), (-0.3, 1 / 3)])]


def enumerated_programs():
    """Every instance of a few finite pattern families, one store per program:
    (1) two comparisons over one operand pair joined by And/Or - all 6x6 operator pairs, both operand orders, int and
        float operands; (2) op(x, literal) and op(literal, x) for every arithmetic operator, literal in {0, 1, -1, 2}
        (int) / {0.0, 1.0, -1.0, 0.5} (float), plain and nested once more; (3) And/Or with a constant on either side;
    (4) a comparison of an operand with itself.  Rules keyed on 'the same operands' or 'this literal' fire on all of them."""
    progs = []

    def prog(e, ty):
        val = ["b2i", e] if ty == "bool" else e
        progs.append({"body": [["assign", ["aidx", "vals", ["int", 4]], val]], "ret": ["int", 0], "envs": ENUM_ENVS, "enumerated": True})

    pairs = [(["var", "x0"], ["var", "x1"]), (["var", "f0"], ["var", "f1"]),
             (["aidx", "dimensions", ["int", 0]], ["Add", ["var", "x1"], ["int", 0]])]
    for a, b in pairs:
        for c1 in CMP:
            for c2 in CMP:
                for j in ("And", "Or"):
                    prog([j, [c1, a, b], [c2, a, b]], "bool")
                    prog([j, [c1, a, b], [c2, b, a]], "bool")
        for c in CMP:
            prog([c, a, a], "bool")
    for ty, x, lits in (("int", ["var", "x0"], [["int", 0], ["int", 1], ["int", -1], ["int", 2]]),
                        ("float", ["var", "f0"], [["flt", 0.0], ["flt", 1.0], ["flt", -1.0], ["flt", 0.5]]),
                        ("float", ["var", "f3"], [["flt", 0.0], ["int", 0], ["int", 1], ["flt", 1.0]])):
        for op in ("Add", "Subtract", "Multiply"):
            for lit in lits:
                prog([op, x, lit], ty)
                prog([op, lit, x], ty)
                for op2 in ("Add", "Subtract", "Multiply"):
                    prog([op2, [op, x, lit], lit], ty)
                    prog([op2, lit, [op, lit, x]], ty)
    for j in ("And", "Or"):
        for k in (True, False):
            c = ["LessThan", ["var", "x0"], ["var", "x1"]]
            prog([j, c, ["bool", k]], "bool")
            prog([j, ["bool", k], c], "bool")
    return progs


def enumerated_task(chunk):
    from ..runner import Stats

    stats = Stats()
    for prog in chunk:
        stats.add(prog, check_program(prog))
    return stats


def program_candidates(prog):
    """Structural shrinking: one environment, drop a statement anywhere, replace a branch/block/loop by its body."""
    if len(prog["envs"]) > 1:
        for e in prog["envs"]:
            yield dict(prog, envs=[e])

    def variants(stmts):
        for i, s in enumerate(stmts):
            yield stmts[:i] + stmts[i + 1:]
            if s[0] == "block":
                yield stmts[:i] + s[1] + stmts[i + 1:]
                for v in variants(s[1]):
                    yield stmts[:i] + [["block", v, s[2]]] + stmts[i + 1:]
            elif s[0] == "branch":
                yield stmts[:i] + s[2] + stmts[i + 1:]
                yield stmts[:i] + s[3] + stmts[i + 1:]
                for v in variants(s[2]):
                    yield stmts[:i] + [["branch", s[1], v, s[3]]] + stmts[i + 1:]
                for v in variants(s[3]):
                    yield stmts[:i] + [["branch", s[1], s[2], v]] + stmts[i + 1:]
            elif s[0] == "loop":
                for v in variants(s[2]):
                    yield stmts[:i] + [["loop", s[1], v]] + stmts[i + 1:]

    for v in variants(prog["body"]):
        yield dict(prog, body=v)
    if prog["ret"] != ["int", 0]:
        yield dict(prog, ret=["int", 0])


def shrink_program(prog, bucket):
    from ..runner import minimise

    pred = lambda p: any(f["bucket"] == bucket for f in check_program(p)["fails"])  # noqa: E731
    return minimise(prog, program_candidates, pred, 400)[0] if pred(prog) else prog


def shrink_kernel(case, bucket):
    from .. import shrink

    pred = lambda c: any(f["bucket"] == bucket for f in check_kernel(c)["fails"])  # noqa: E731
    return shrink.minimise_kernel_case(case, pred)[0] if pred(case) else case


def replay(payload):
    if payload.get("kind") == "program":
        return check_program(payload["case"])["fails"]
    return check_kernel(payload["case"])["fails"]


def run(chk):
    quick = chk.tier == "quick"
    chk.absorb(run_stream(__name__, "kernels", chk.tier, chk.seed, 240 if quick else 8000), kind="case", shrink=shrink_kernel)
    chk.absorb(run_stream(__name__, "programs", chk.tier, chk.seed, 6400 if quick else 200000), kind="program",
               shrink=shrink_program)
    from ..runner import run_tasks

    progs = enumerated_programs()
    chk.absorb(run_tasks(enumerated_task, [progs[i : i + 64] for i in range(0, len(progs), 64)]), kind="program", shrink=shrink_program)
    chk.coverage_extra["enumerated_pattern_programs"] = len(progs)
    if not quick:
        from ..runner import coverage_guided

        coverage_guided(chk, __name__, "programs", 420, procs=8, shrink=shrink_program, kind="program")


def health(cov):
    p = []
    progs = cov["counters"].get("programs", 0)
    if progs and cov["classes"].get("program_changed", 0) < 0.3 * progs:
        p.append("optimiser changed fewer than 30% of generated programs")
    runs = cov["counters"].get("program_runs", 0)
    disc = cov["counters"].get("discarded_original_unsafe", 0)
    if runs + disc and disc > 0.5 * (runs + disc):
        p.append("more than half of program runs were discarded because the original is unsafe")
    return p
