"""C04 - assemble followed by compute is equivalent to evaluate."""
from __future__ import annotations

from hypothesis import strategies as st

from .. import cases as C
from .. import gen, kcheck, kprops, shrink
from ..runner import result, run_stream

PROP = "C04"
LEVEL = "exploration"
RULE = (
    "generated problems with the module [evaluate, assemble, compute] built once at initial capacity 1, 2 or "
    "default; history on the IR abstract machine: assemble once (structure must equal evaluate's block for "
    "block, vals allocated), then structure blocks are made read-only and allocation is forbidden, then compute "
    "runs on the original values and on 1-3 Hypothesis-drawn re-valuations of the inputs (same structure); after "
    "each compute vals[0:nnz] must equal a fresh evaluate on the same values and the exact-rational meaning. "
    "non-trivial = kernels produced AND (compressed output level OR contraction below a dense output level) "
    "AND >=1 compute after a re-valuation; distinct by case hash."
)
ASSUMPTIONS = [
    "histories are executed on the abstract machine; the thorough tier additionally compiles the three functions "
    "from the emitted C with gcc -fsanitize=address,undefined (C05/C06 harness)",
    "the exact value class makes compute/evaluate equality independent of floating-point order",
]


@st.composite
def cases(draw, tier):
    c = draw(gen.kernel_cases(max_leaves=4 if tier == "quick" else 5, value_class="exact",
                              sparse_output_bias=draw(st.booleans())))
    c["capacity"] = draw(st.sampled_from([1, 2, None]))
    if len(c["target"][1]) >= 2 and draw(st.integers(0, 2)) == 0:
        # compressed level(s) followed by dense ones: compute then writes whole dense blocks at a position that may
        # not be committed (the 'scratch' block after the last stored position)
        modes, ordering = C.fmt_parts(c["formats"]["o"])
        shape = draw(st.sampled_from(["sd", "sds", "ssd", "dsd", "sdd", "dss"]))
        m2 = tuple((shape * 2)[: len(modes)])
        c["formats"] = dict(c["formats"], o=C.fmt_text(m2, ordering))
    n = draw(st.integers(1, 3))
    revs = []
    for _ in range(n):
        revs.append({nm: [draw(st.integers(-8, 8)) / 2 for _ in s["vals"]] for nm, s in c["inputs"].items()})
    c["revaluations"] = revs
    return c


@st.composite
def hollow(draw, tier):
    """Inputs with coordinates stored above empty segments (gen.hollow_cases): assemble must reach the same structure as
    evaluate by walking the operands, not by assuming that a stored coordinate has something below it."""
    c = draw(gen.hollow_cases())
    c["capacity"] = draw(st.sampled_from([1, 2, None]))
    c["revaluations"] = [{nm: [draw(st.integers(-8, 8)) / 2 for _ in s["vals"]] for nm, s in c["inputs"].items()}]
    return c


def check(case, ctx=None):
    labels = set(gen.case_features(case))
    fails, info = kprops.assemble_compute_history(case, case.get("capacity"), case.get("revaluations", []))
    st_ = info.get("status")
    if st_ in ("refused", "crash"):
        w = info["why"] if isinstance(info["why"], str) else info["why"][0]
        return result([], labels | {f"{st_}:{w}"}, False, kcheck.case_id(case), None)
    labels.add("kernels_ok")
    if info.get("grow"):
        labels.add("growth_branch_taken")
    bucket_path = "contraction" in labels and "d" in case["formats"][case["target"][0]]
    nontrivial = ("compressed_output" in labels or bucket_path) and info.get("computes", 0) >= 2
    s = kcheck.sample_of(case)
    s["history"] = ["assemble"] + ["compute"] * info.get("computes", 0)
    return result(fails, labels, nontrivial, kcheck.case_id(case), s, {"computes": info.get("computes", 0)})


STREAMS = {"main": {"strategy": cases, "check": check}, "hollow": {"strategy": hollow, "check": check}}


def shrink_case(case, bucket):
    pred = lambda c: any(f["bucket"] == bucket for f in check(c)["fails"])  # noqa: E731
    if not pred(case):
        return case

    def cands(c):
        for cand in shrink.kernel_candidates(c):
            cand = dict(cand)
            cand["revaluations"] = [
                {nm: [1.0] * len(s["vals"]) for nm, s in cand["inputs"].items()} for _ in c.get("revaluations", [])[:1]
            ]
            yield cand

    from ..runner import minimise

    return minimise(case, cands, pred, 250)[0]


def replay(payload):
    return check(payload["case"])["fails"]


def run(chk):
    n = 800 if chk.tier == "quick" else 16000
    chk.absorb(run_stream(__name__, "main", chk.tier, chk.seed, n), shrink=shrink_case)
    chk.absorb(run_stream(__name__, "hollow", chk.tier, chk.seed, n // 4), shrink=shrink_case)
