"""C10 - inconsistent arguments are refused before any kernel runs."""
from __future__ import annotations

from hypothesis import strategies as st

from .. import bridge
from .. import cases as C
from .. import exprs as X
from .. import gen, kcheck
from ..runner import fail, jhash, result, run_stream

PROP = "C10"
LEVEL = "fault_enumeration"
RULE = (
    "a valid call is generated (assignment, formats, consistent inputs; only problems for which a kernel exists), "
    "then exactly one fault is injected, enumerated by kind: drop an argument, add an extra one, replace a tensor by "
    "int/float/None/list/str, change the size of one dimension slot of an index that has >=2 slots (first, later, "
    "or a slot of a tensor used twice), give a tensor of another order, flip one mode, permute the ordering, use a "
    "wrong keyword name, pass inputs positionally. Entry points: evaluate() and tensor_method()(). Oracle: the call "
    "raises TypeError, ValueError or UndefinedReferenceError/UnusedFormatError/IncorrectDimensionsError, and a spy "
    "installed in place of the compiled function pointer (TensorMethod._evaluate) was not entered; the unmutated "
    "call must enter the spy exactly once and raise nothing. non-trivial = fault injected into a problem whose "
    "kernel exists; distinct by (assignment, formats, fault)."
)
ASSUMPTIONS = [
    "the compiled function pointer is replaced by a Python spy, so a missed check is observed without running a "
    "kernel on inconsistent data",
    "for evaluate() the input formats are taken from the tensors themselves, so 'wrong mode/ordering' faults are "
    "only meaningful (and only injected) for tensor_method()",
]

FAULTS_EVALUATE = ["drop", "extra", "extra_target", "extra_known", "nontensor", "dim", "dim0", "order"]
FAULTS_METHOD = ["drop", "extra", "extra_target", "extra_known", "nontensor", "dim", "dim0", "order", "mode", "ordering", "name", "positional",
                 "same_object"]
ALLOWED = {"TypeError", "ValueError", "UndefinedReferenceError", "UnusedFormatError", "IncorrectDimensionsError"}


def slots_of(tree, idx):
    s = []
    for t in X.tensors(tree):
        for p, i in enumerate(t[2]):
            if i == idx and (t[1], p) not in s:
                s.append((t[1], p))
    return s


@st.composite
def faulty_calls(draw, tier):
    case = draw(gen.kernel_cases(max_leaves=4, value_class="exact", min_dim=1, literal_rate=8,
                                 order_choices=(1, 1, 2, 2, 2, 3)))
    # the fault kind x entry point is *enumerated* per valid call (see shard()); only the choices inside a
    # fault kind are drawn
    case["fault_params"] = {"pick": draw(st.integers(0, 1000)), "pick2": draw(st.integers(0, 1000)),
                            "value": draw(st.sampled_from(["int", "float", "None", "list", "str"])),
                            "delta": draw(st.sampled_from([1, 2, -1]))}
    return case


def enumerate_faults(base):
    for entry, kinds in (("evaluate", FAULTS_EVALUATE), ("method", FAULTS_METHOD)):
        for kind in kinds:
            c = dict(base)
            c.pop("fault_params", None)
            c["entry"] = entry
            c["fault"] = dict(base["fault_params"], kind=kind)
            yield c


def shard(task):
    from ..runner import Stats, generate_cases

    tier, seed, shard_no, n = task
    stats = Stats()
    for base in generate_cases(faulty_calls(tier), n, seed * 5003 + shard_no):
        status, _payload = kcheck.build(base)
        if status != "ok":
            stats.counters["valid_calls_without_kernel_skipped"] += 1
            continue
        stats.counters["valid_calls"] += 1
        for c in enumerate_faults(base):
            stats.add(c, check(c))
    return stats


class Spy:
    def __init__(self):
        self.entered = 0

    def __call__(self, *args):
        self.entered += 1
        return 0


def install_spy(spy):
    """Wrap cachable_tensor_method so every TensorMethod it hands out calls the spy instead of the kernel."""
    import tensora.compile._porcelain as P

    real = P.cachable_tensor_method

    def wrapped(problem, backend):
        tm = real(problem, backend)
        tm._evaluate = spy
        return tm

    for attr in ("cache_clear", "cache_info"):
        if hasattr(real, attr):
            setattr(wrapped, attr, getattr(real, attr))
    P.cachable_tensor_method = wrapped
    return real


def uninstall_spy(real):
    import tensora.compile._porcelain as P

    P.cachable_tensor_method = real
    bridge.clear_kernel_cache()


def empty_tensor(dims, fmt):
    modes, ordering = C.fmt_parts(fmt)
    levels, vals = C.levels_from_dok({}, tuple(dims), modes, ordering)
    return C.tensor_from_stored(tuple(dims), fmt, {"levels": levels, "vals": vals})


def call(entry, case, inputs, formats, positional=False):
    from tensora import evaluate, tensor_method

    oname = case["target"][0]
    if entry == "evaluate":
        return evaluate(case["assignment"], formats[oname], **inputs)
    fn = tensor_method(case["assignment"], dict(formats))
    if positional:
        return fn(*inputs.values())
    return fn(**inputs)


def apply_fault(case, inputs, formats):
    """-> (inputs, formats, description, applicable, positional)"""
    f = case["fault"]
    kind = f["kind"]
    names = list(inputs)
    tree = case["expr"]
    _p, asg, _f = bridge.problem_of(case)
    if kind == "positional":
        if not names:
            return inputs, formats, "", False, False
        return inputs, formats, "inputs passed positionally (parameters are keyword-only)", True, True
    if kind == "same_object":
        # one Tensor object passed for two parameters that expect different formats; every dimension has the same
        # size, so the dimension cross-check cannot refuse the call by accident
        pairs = [(a, b) for a in names for b in names if a != b and C.fmt_parts(formats[a]) != C.fmt_parts(formats[b])]
        if not pairs:
            return inputs, formats, "", False, False
        a, b = pairs[f["pick"] % len(pairs)]
        size = 2
        rebuilt = {n: empty_tensor((size,) * len(C.fmt_parts(formats[n])[0]), formats[n]) for n in names}
        rebuilt[b] = rebuilt[a]
        return rebuilt, formats, f"the Tensor object passed for {a} ({formats[a]!r}) is also passed for {b} ({formats[b]!r})", True, False
    if kind in ("drop", "nontensor", "order", "mode", "ordering", "name") and not names:
        return inputs, formats, "", False, False
    inputs = dict(inputs)
    if kind == "drop":
        n = names[f["pick"] % len(names)]
        del inputs[n]
        return inputs, formats, f"argument {n} dropped", True, False
    if kind == "extra":
        n = "zz" + str(f["pick"] % 7)
        inputs[n] = empty_tensor((2,), "d")
        return inputs, formats, f"extra argument {n}", True, False
    if kind == "extra_target":
        # an extra argument spelled like the assignment's target: a tensor of exactly the output's shape and format
        oname = case["target"][0]
        inputs[oname] = empty_tensor(C.tensor_dims(asg, case["sizes"], oname), formats[oname])
        return inputs, formats, f"extra argument named like the target {oname}", True, False
    if kind == "extra_known":
        # an extra argument spelled like an index of the assignment or like 'self' / 'kwargs' / a back-end keyword
        pool = sorted(set(X.indexes_of(tree)) | set(case["target"][1])) + ["self", "backend", "output_format", "args", "kwargs"]
        n = pool[f["pick"] % len(pool)]
        if n in inputs or n == case["target"][0]:
            return inputs, formats, "", False, False
        inputs[n] = empty_tensor((2,), "d")
        return inputs, formats, f"extra argument {n}", True, False
    if kind == "nontensor":
        n = names[f["pick"] % len(names)]
        inputs[n] = {"int": 5, "float": 2.5, "None": None, "list": [1.0, 2.0], "str": "x"}[f["value"]]
        return inputs, formats, f"argument {n} replaced by {f['value']}", True, False
    if kind == "name":
        n = names[f["pick"] % len(names)]
        inputs["q" + n] = inputs.pop(n)
        return inputs, formats, f"argument {n} passed as q{n}", True, False
    if kind in ("dim", "dim0"):
        idxs = [i for i in X.indexes_of(tree) if len(slots_of(tree, i)) >= 2]
        if not idxs:
            return inputs, formats, "", False, False
        i = idxs[f["pick"] % len(idxs)]
        sl = slots_of(tree, i)
        name, pos = sl[f["pick2"] % len(sl)]
        dims = list(C.tensor_dims(asg, case["sizes"], name))
        dims[pos] = 0 if kind == "dim0" else max(0, dims[pos] + f["delta"])
        if dims[pos] == C.tensor_dims(asg, case["sizes"], name)[pos]:
            dims[pos] += 1
        inputs[name] = empty_tensor(dims, formats[name])
        which = "first" if (name, pos) == sl[0] else ("later" if sl.index((name, pos)) >= 2 else "second")
        return inputs, formats, f"dimension {pos} of {name} (index {i}, {which} of {len(sl)} slots) changed to {dims[pos]}", True, False
    n = names[f["pick"] % len(names)]
    dims = list(C.tensor_dims(asg, case["sizes"], n))
    modes, ordering = C.fmt_parts(formats[n])
    if kind == "order":
        nd = dims + [2] if (f["pick2"] % 2 == 0 or not dims) else dims[:-1]
        inputs[n] = empty_tensor(nd, "d" * len(nd))
        return inputs, formats, f"argument {n} has order {len(nd)} instead of {len(dims)}", True, False
    if kind == "mode":
        if not modes:
            return inputs, formats, "", False, False
        k = f["pick2"] % len(modes)
        m2 = tuple(("s" if m == "d" else "d") if q == k else m for q, m in enumerate(modes))
        inputs[n] = empty_tensor(dims, C.fmt_text(m2, ordering))
        return inputs, formats, f"argument {n} has mode {k} flipped", True, False
    if kind == "ordering":
        if len(modes) < 2:
            return inputs, formats, "", False, False
        o2 = list(ordering)
        k = f["pick2"] % (len(o2) - 1)
        o2[k], o2[k + 1] = o2[k + 1], o2[k]
        inputs[n] = empty_tensor(dims, C.fmt_text(modes, tuple(o2)))
        return inputs, formats, f"argument {n} has ordering {tuple(o2)} instead of {ordering}", True, False
    raise ValueError(kind)


def check(case, ctx=None):
    bridge.ensure_tensora()
    labels = {f"entry:{case['entry']}", f"fault:{case['fault']['kind']}"}
    status, payload = kcheck.build(case)
    if status != "ok":
        return result([], labels | {"no_kernel_skipped"}, False, None, None)
    _p, asg, _f = bridge.problem_of(case)
    formats = dict(case["formats"])
    inputs = {nm: C.tensor_from_stored(C.tensor_dims(asg, case["sizes"], nm), formats[nm], s)
              for nm, s in case["inputs"].items()}
    spy = Spy()
    real = install_spy(spy)
    fails = []
    d = f"{case['assignment']} {formats} via {case['entry']}"
    try:
        # the valid call must go through (guards against a check that rejects everything)
        try:
            call(case["entry"], case, inputs, formats)
            if spy.entered != 1:
                fails.append(fail("valid-call-did-not-reach-kernel", f"{d}: spy entered {spy.entered} times"))
        except Exception as e:  # noqa: BLE001
            if type(e).__name__ == "BroadcastTargetIndexError":
                return result([], labels | {"broadcast_target_skipped"}, False, None, None)
            fails.append(fail(f"valid-call-rejected:{type(e).__name__}", f"{d}: {e}"[:300]))
        spy.entered = 0
        minputs, mformats, desc, applicable, positional = apply_fault(case, inputs, formats)
        if not applicable:
            return result(fails, labels | {"fault_not_applicable"}, False, None, None)
        try:
            call(case["entry"], case, minputs, mformats, positional)
            outcome = "returned"
        except Exception as e:  # noqa: BLE001
            outcome = type(e).__name__
        if spy.entered:
            fails.append(fail(f"kernel-entered:{case['fault']['kind']}", f"{d}: {desc}: kernel was entered ({outcome})"))
        elif outcome == "returned":
            fails.append(fail(f"call-returned:{case['fault']['kind']}", f"{d}: {desc}: returned a result without running a kernel"))
        elif outcome not in ALLOWED:
            fails.append(fail(f"wrong-exception:{outcome}:{case['fault']['kind']}", f"{d}: {desc}: raised {outcome}"))
        labels.add(f"outcome:{outcome}")
    finally:
        uninstall_spy(real)
    sample = {"assignment": case["assignment"], "formats": formats, "entry": case["entry"], "fault": desc,
              "outcome": outcome}
    return result(fails, labels, True, jhash([case["assignment"], formats, case["entry"], desc]), sample)




def replay(payload):
    return check(payload["case"])["fails"]


def shrink_case(case, bucket):
    from .. import shrink
    from ..runner import minimise

    pred = lambda c: any(f["bucket"] == bucket for f in check(c)["fails"])  # noqa: E731
    if not pred(case):
        return case

    def cands(c):
        for cand in shrink.kernel_candidates(c):
            cand = dict(cand)
            cand["entry"] = c["entry"]
            cand["fault"] = c["fault"]
            yield cand

    return minimise(case, cands, pred, 200)[0]


def run(chk):
    from ..runner import run_tasks

    n = 480 if chk.tier == "quick" else 12000
    shards = 16
    chk.absorb(run_tasks(shard, [(chk.tier, chk.seed, s, n // shards) for s in range(shards)]), shrink=shrink_case)


def health(cov):
    p = []
    for k in FAULTS_METHOD:
        if cov["classes"].get(f"fault:{k}", 0) == 0:
            p.append(f"fault kind {k} never generated")
    return p
