"""C05 - generated kernels are memory-safe, leave inputs untouched and terminate."""
from __future__ import annotations

from hypothesis import strategies as st

from .. import cases as C
from .. import gen, kcheck, kprops, shrink
from ..runner import result, run_stream

PROP = "C05"
LEVEL = "exploration"
RULE = (
    "generated problems (emphasis on empty levels, zero-sized dimensions, small capacities) x all three kernel "
    "kinds x initial capacities {1,2,3,default}; every load/store/realloc of evaluate, assemble and compute is "
    "executed on the IR abstract machine, which traps on out-of-bounds or uninitialised reads, writes to input / "
    "read-only / dead blocks, int32 overflow, non-zero return and on exceeding the deterministic step budget "
    "(#statements x prod((T+1)*dim+2)); inputs are compared cell by cell before/after; returned arrays must be "
    "live and at least as long as the structure describes. non-trivial = a kernel executed >=1 loop iteration; "
    "distinct by case hash. Huge-dimension stream: every index kept only in compressed levels everywhere is enlarged to "
    "46341, 65536, 2^20, 2^30 or 2^31-1 (all such indexes at once) and evaluate, assemble and compute must run trap-free "
    "with an unchanged result. Thorough: the same kernels from emitted C under gcc ASan+UBSan."
)
ASSUMPTIONS = [
    "well-formed inputs are produced by construction from level structures (what taco_structure_to_cffi accepts)",
    "element counts are tiny, so the 'fits 32-bit index arithmetic' precondition always holds",
    "huge stream: only indexes that every operand and the output keep in compressed levels, and that every additive term "
    "mentions, are enlarged (to 46341 ... 2^31-1); the stored entries are unchanged",
]


@st.composite
def cases(draw, tier):
    rich = draw(st.booleans())
    c = draw(gen.kernel_cases(max_leaves=4 if tier == "quick" else 5,
                              sparse_output_bias=draw(st.booleans()), big_literals=False,
                              min_target=2 if rich else 0, order_choices=(1, 2, 2, 3, 3) if rich else (0, 1, 1, 2, 2, 2, 3)))
    if rich and len(c["target"][1]) >= 2:
        # appended outputs with dense levels between / after compressed ones exercise every growth formula
        modes, ordering = C.fmt_parts(c["formats"]["o"])
        n = len(modes)
        shape = draw(st.sampled_from(["sds", "sd", "ssd", "dsd", "ss", "dss", "sdd"]))
        m2 = tuple((shape * 2)[:n])
        if "s" in m2:
            c["formats"] = dict(c["formats"], o=C.fmt_text(m2, ordering))
    c["capacity"] = draw(st.sampled_from(kprops.CAPACITIES))
    c["revaluations"] = []
    return c


@st.composite
def native_cases(draw, tier):
    """The 'rich' half of cases(): outputs with dense levels below compressed ones at a small initial capacity, no
    zero-sized dimension - the shapes whose growth formulas differ most - for the sanitized C / guarded LLVM stage."""
    c = draw(gen.kernel_cases(max_leaves=3, sparse_output_bias=True, big_literals=False, min_target=2, min_dim=2,
                              order_choices=(1, 2, 2, 3, 3), value_class="exact"))
    if len(c["target"][1]) >= 2:
        modes, ordering = C.fmt_parts(c["formats"]["o"])
        shape = draw(st.sampled_from(["sds", "sd", "ssd", "dsd", "sdd", "sd"]))
        c["formats"] = dict(c["formats"], o=C.fmt_text(tuple((shape * 2)[: len(modes)]), ordering))
    c["capacity"] = draw(st.sampled_from([1, 1, 2, 3]))
    return c


@st.composite
def hollow(draw, tier):
    c = draw(gen.hollow_cases())
    c["capacity"] = draw(st.sampled_from(kprops.CAPACITIES))
    c["revaluations"] = []
    return c


def check(case, ctx=None):
    labels = set(gen.case_features(case))
    fails, info = [], {}
    runs = 0
    # every initial capacity for every case ("however small they started"); the drawn one goes first
    caps = [case.get("capacity")] + [c for c in kprops.CAPACITIES if c != case.get("capacity")]
    for cap in caps:
        f, i = kprops.assemble_compute_history(case, cap, [], check_values=False)
        st_ = i.get("status")
        if st_ in ("refused", "crash"):
            w = i["why"] if isinstance(i["why"], str) else i["why"][0]
            return result([], labels | {f"{st_}:{w}"}, False, kcheck.case_id(case), None)
        runs += 2 + i.get("computes", 0)
        info = {**i, "grow": info.get("grow", 0) + i.get("grow", 0), "loops": max(info.get("loops", 0), i.get("loops", 0))}
        fails += f
        if f:
            break
    info["computes"] = runs - 2
    # only safety buckets belong to C05; consistency buckets are C04's
    safety = [f for f in fails if ("trap:" in f["bucket"] or "invalid:" in f["bucket"] or "replaced-vals" in f["bucket"])]
    labels.add("kernels_ok")
    if info.get("grow"):
        labels.add("growth_branch_taken")
    nontrivial = info.get("loops", 0) >= 1
    s = kcheck.sample_of(case)
    s["loop_iterations_evaluate"] = info.get("loops", 0)
    return result(safety, labels, nontrivial, kcheck.case_id(case), s, {"kernel_runs": 2 + info.get("computes", 0)})


# ---------------------------------------------------------------------------- huge dimensions
# "element counts fit 32-bit signed index arithmetic" is a statement about what is *stored*: a 65536 x 65536 or a
# 2^30 x 2^30 tensor with five stored entries is a legal input as long as every such dimension is kept in
# compressed levels only.  Nothing in a kernel may then multiply those dimensions together (int32 overflow), use
# one as an allocation size, or count up to it.  Only dimensions[] changes on the abstract machine, so the large
# sizes cost nothing.
HUGE = [46341, 65536, 2**20, 2**30, 2**31 - 1]


@st.composite
def huge_cases(draw, tier):
    from . import c16

    c = draw(c16.cases(tier))
    c["huge"] = draw(st.sampled_from(HUGE))
    if draw(st.booleans()):
        # appended outputs with a dense level below a compressed one multiply dimensions on purpose
        c["capacity"] = draw(st.sampled_from(kprops.CAPACITIES))
    return c


def check_huge(case, ctx=None):
    from .. import bridge
    from .. import exprs as X
    from ..machine import Trap
    from ..runner import fail
    from . import c16

    classes = c16.qualifying_classes(case)
    if not classes:
        return result([], {"huge:no_qualifying_index"}, False, kcheck.case_id(case), None)
    c = case
    for cls in classes:
        c = c16.force_compressed(c, cls)
    big = {i for cls in classes for i in cls}
    c["capacity"] = case.get("capacity")
    labels = {"huge:qualifying", f"huge:indexes:{min(len(big), 3)}"}
    status, payload = kcheck.build(c, ("evaluate", "assemble", "compute"))
    if status != "ok":
        w = payload if isinstance(payload, str) else payload[0]
        return result([], labels | {f"huge:{status}:{w}"}, False, kcheck.case_id(c), None)
    fns = bridge.functions_of(payload)
    d = f"{c['assignment']} {c['formats']} sizes={c['sizes']} huge={sorted(big)}->{case['huge']} cap={c.get('capacity')}"
    ov1, ovh = {}, {}
    for t in [["t", c["target"][0], c["target"][1]]] + X.tensors(c["expr"]):
        ov1[t[1]] = [c["sizes"][i] for i in t[2]]
        ovh[t[1]] = [case["huge"] if i in big else c["sizes"][i] for i in t[2]]
    fails = []
    loops = 0
    budget = 4 * bridge.step_budget(fns["evaluate"], c)
    stored = {}
    for tag, ov in (("x1", ov1), ("huge", ovh)):
        try:
            m, structs, _rv = bridge.run_on_machine(c, fns["evaluate"], dims_override=ov, budget=budget)
            errs, st_, _a, _n = C.decode_struct(structs[c["target"][0]], strict=True)
            stored[tag] = None if errs else st_
            loops = max(loops, m.loop_iters)
            m2, structs2, _rv = bridge.run_on_machine(c, fns["assemble"], dims_override=ov, budget=budget)
            bridge.run_on_machine(c, fns["compute"], machine=m2, output_struct=structs2[c["target"][0]], dims_override=ov, budget=budget)
        except Trap as t:
            if tag == "x1":
                # an unscaled failure is the main stream's business (and may be a known finding)
                return result([], labels | {"huge:unscaled-trap"}, False, kcheck.case_id(c), None)
            fails.append(fail(f"huge-trap:{t.kind}", f"{d}: {t.msg}", **kcheck.trap_info(t)))
            break
    if not fails and stored.get("x1") is not None and stored.get("huge") != stored.get("x1"):
        fails.append(fail("huge-invalid:result-changes-with-dimension", d))
    s = kcheck.sample_of(c)
    s["huge_indexes"] = sorted(big)
    s["huge_size"] = case["huge"]
    return result(fails, labels, loops >= 1, kcheck.case_id(c) + str(case["huge"]), s, {"kernel_runs": 6, "huge_runs": 3})


STREAMS = {"main": {"strategy": cases, "check": check}, "huge": {"strategy": huge_cases, "check": check_huge},
           "hollow": {"strategy": hollow, "check": check}}


def shrink_case(case, bucket):
    pred = lambda c: any(f["bucket"] == bucket for f in check(c)["fails"])  # noqa: E731
    return shrink.minimise_kernel_case(case, pred)[0] if pred(case) else case


def shrink_huge(case, bucket):
    pred = lambda c: any(f["bucket"] == bucket for f in check_huge(c)["fails"])  # noqa: E731
    if not pred(case):
        return case

    def cands(c):
        for cand in shrink.kernel_candidates(c):
            cand = dict(cand)
            cand["huge"] = c["huge"]
            cand["pick"] = c.get("pick", 0)
            yield cand

    from ..runner import minimise

    return minimise(case, cands, pred, 150)[0]


def replay(payload):
    if "huge" in payload["case"]:
        return check_huge(payload["case"])["fails"]
    return check(payload["case"])["fails"]


SAFETY_NATIVE = ("c-runtime:", "c-input-modified", "c-nonzero-return", "llvm-crash", "llvm-nonzero-return",
                 "llvm-writes-past-allocation")


def run(chk):
    from .. import machine_selftest
    from ..bridge import HarnessError

    problems, n_snippets = machine_selftest.run()
    if problems:
        raise HarnessError("; ".join(problems))
    chk.coverage_extra["machine_selftest_snippets"] = n_snippets
    n = 560 if chk.tier == "quick" else 30000
    chk.absorb(run_stream(__name__, "main", chk.tier, chk.seed, n), shrink=shrink_case)
    chk.absorb(run_stream(__name__, "huge", chk.tier, chk.seed, 320 if chk.tier == "quick" else 12000), shrink=shrink_huge)
    chk.absorb(run_stream(__name__, "hollow", chk.tier, chk.seed, 160 if chk.tier == "quick" else 6000), shrink=shrink_case)
    if chk.tier != "quick":
        from ..runner import coverage_guided

        coverage_guided(chk, __name__, "main", 420, procs=8, shrink=shrink_case)
    # the same three kernel kinds from the emitted C under ASan+UBSan (clang and gcc) and from the LLVM JIT;
    # only the safety buckets belong to C05 (agreement of results is C06's business)
    from ..runner import run_tasks
    from . import c06

    per = 6 if chk.tier == "quick" else 320
    # C05's own shapes (compressed-then-dense outputs, every small capacity) for half of the shards, C06's mix for the rest
    tasks = [(chk.tier, chk.seed + 17, s, per, True, "clang-14" if s % 2 == 0 else "gcc") + ((__name__ + ":native_cases",) if s % 4 < 2 else ())
             for s in range(16)]
    native = run_tasks(c06.kernel_shard, tasks).keep_buckets(lambda b: b.startswith(SAFETY_NATIVE))
    native.nontrivial_keys = set()  # counted on the abstract machine only
    native.samples = []
    chk.stats.counters["native_sanitizer_kernel_cases"] += native.evaluations
    native.evaluations = 0
    chk.absorb(native, kind="case")
