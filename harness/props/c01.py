"""C01 - evaluate computes the mathematical meaning of the assignment, in every format."""
from __future__ import annotations

from hypothesis import strategies as st

from .. import cases as C
from .. import exprs as X
from .. import gen, kcheck, shrink
from ..native.pool import Worker
from ..runner import fail, result, run_stream

PROP = "C01"
LEVEL = "exploration"
RULE = (
    "Hypothesis-generated assignments (<=5 leaves, + - *, literals, re-used tensors) x formats ({d,s}^n x S_n, "
    "n<=3) x index sizes 0..4 x stored level structures (explicit zeros, empty segments); each case is run on "
    "the IR abstract machine and, when trap-free, through tensor_method in a native LLVM worker, then compared "
    "at every coordinate with the exact-rational sum-of-products meaning; metamorphic companions (other "
    "formats, commuted/re-associated operators, renamed tensors/indexes) go through the same oracle. "
    "non-trivial = kernel produced AND some expected entry != 0 AND at least one of {contraction, compressed "
    "level, non-identity ordering, re-used tensor, literal, broadcast term}; distinct by hash of "
    "(assignment, formats, sizes, inputs)."
)
ASSUMPTIONS = [
    "exact value class: every intermediate is a dyadic rational below 2^52 (checked per case), so any order of "
    "floating-point operations is exact and the comparison is equality; general class uses the forward bound "
    "(n_ops+4)*2^-52*sum|contributions|",
    "the abstract machine implements C/LLVM semantics of the IR (cross-checked bit-for-bit by C06)",
    "native LLVM execution only for cases the machine ran without a trap",
]

TNAMES = ["A", "B1", "T", "xx", "Mat", "v", "w9", "Q"]
INAMES = ["p", "q", "r", "s0", "row", "col", "m", "n"]


@st.composite
def cases(draw, tier):
    case = draw(gen.kernel_cases(max_leaves=5 if tier == "quick" else 6, big_literals=False))
    case["capacity"] = draw(st.sampled_from([None, None, 1, 2]))
    # companion parameters
    alt = {"o": draw(gen.formats(len(case["target"][1])))}
    for nm in case["inputs"]:
        alt[nm] = draw(gen.formats(len(C.fmt_parts(case["formats"][nm])[0])))
    n_ops = X.size(case["expr"])
    bits = draw(st.lists(st.integers(0, 3), min_size=n_ops, max_size=n_ops))
    tn = list(draw(st.permutations(TNAMES)))
    inn = list(draw(st.permutations(INAMES)))
    names = ["o"] + list(case["inputs"])
    case["companions"] = {
        "formats": alt,
        "commute": bits,
        "tmap": dict(zip(names, tn)),
        "imap": dict(zip(sorted(case["sizes"]), inn)),
    }
    return case


@st.composite
def literal_cases(draw, tier):
    """Boundary class: integer literals at and beyond the int32 range (F-I lives here)."""
    case = draw(gen.kernel_cases(max_leaves=3, big_literals=True, literal_rate=45, value_class="exact", min_dim=1))
    case["capacity"] = None
    return case


@st.composite
def lattice(draw, tier):
    case = draw(gen.lattice_cases(value_class=draw(st.sampled_from(["exact", "exact", "general"]))))
    case["capacity"] = draw(st.sampled_from([None, 1, 2]))
    return case


@st.composite
def hollow(draw, tier):
    """Operands with coordinates stored above empty segments (legal raw structures no constructor builds)."""
    case = draw(gen.hollow_cases(value_class="exact"))
    case["capacity"] = draw(st.sampled_from([None, 1, 2]))
    return case


def setup(tier, seed, shard):
    return {"worker": Worker(timeout=180.0), "tier": tier}


def teardown(ctx):
    ctx["worker"].close()


def check_one(case, ctx, native=True):
    """-> (fails, produced, exp)"""
    status, payload = kcheck.build(case)
    if status == "refused":
        return [], False, None, f"refused:{payload}"
    if status == "crash":
        # generation crashes are C08's business; here the case simply has no kernel
        return [], False, None, f"gencrash:{payload[0]}"
    fn = kcheck.bridge.functions_of(payload)["evaluate"]
    exp = kcheck.Expected(case)
    fails, m, st_, stored, _arrays, errs = kcheck.machine_evaluate(case, fn)
    if fails:
        return fails, True, exp, "machine-trap"
    if stored is None:
        return [fail(f"invalid:{errs[0][0]}", f"{case['assignment']} {case['formats']}: {errs}")], True, exp, "invalid"
    fails = exp.value_fails(stored, "machine")
    if not fails and native and ctx is not None:
        nf, _rep = kcheck.native_check(case, exp, ctx["worker"])
        fails += nf
        # a sample also goes through the cffi back end (emitted C compiled by the system compiler)
        every = 40 if ctx.get("tier") == "quick" else 20
        if not nf and int(kcheck.case_id(case), 16) % every == 0:
            nf2, _rep2 = kcheck.native_check(case, exp, ctx["worker"], backend="cffi")
            fails += nf2
            ctx["cffi_runs"] = ctx.get("cffi_runs", 0) + 1
    return fails, True, exp, "ok"


def check(case, ctx=None):
    labels = set(gen.case_features(case))
    fails, produced, exp, status = check_one(case, ctx)
    labels.add(status if not status.startswith("ok") else "kernel_ok")
    extra = {}
    nontrivial = False
    if produced and exp is not None:
        feats = labels & {"contraction", "compressed_level", "ordering_nonidentity", "reused_tensor", "literal",
                          "broadcast_term"}
        nontrivial = bool(feats) and exp.any_nonzero()
        if case.get("capacity") is not None:
            labels.add("small_capacity")
    comp = case.get("companions")
    if comp and produced and not fails:
        variants = []
        try:
            variants.append(("formats", kcheck.with_formats(case, comp["formats"])))
        except Exception as e:  # harness bug: surface it
            raise
        variants.append(("commute", kcheck.with_tree(case, kcheck.commuted(case["expr"], comp["commute"]))))
        variants.append(("rename", kcheck.renamed(case, comp["tmap"], comp["imap"])))
        for kind, v in variants:
            vf, vprod, _vexp, vstatus = check_one(v, ctx, native=(kind == "rename"))
            extra[f"companion_{kind}_{'run' if vprod else 'norun'}"] = 1
            for f in vf:
                f = dict(f)
                f["bucket"] = f"companion-{kind}:{f['bucket']}"
                f["info"] = dict(f["info"], companion=kind, variant=v)
                fails.append(f)
    return result(fails, labels, nontrivial, kcheck.case_id(case), kcheck.sample_of(case), extra)


STREAMS = {
    "main": {"strategy": cases, "check": check, "setup": setup, "teardown": teardown},
    "literals": {"strategy": literal_cases, "check": check, "setup": setup, "teardown": teardown},
    "lattice": {"strategy": lattice, "check": check, "setup": setup, "teardown": teardown},
    "hollow": {"strategy": hollow, "check": check, "setup": setup, "teardown": teardown},
}


# -------------------------------------------------------------- template x all formats sweep
SWEEP_BASE = {"i": 2, "j": 3, "k": 2, "l": 3}


def sweep_task(task):
    from ..runner import Stats

    name, text, fmts_chunk, offset = task
    stats = Stats()
    # indexes that address the same dimension of a tensor used twice must have equal sizes
    probe = kcheck.case_from_text(text, {}, SWEEP_BASE, {})
    SWEEP_SIZES = dict(SWEEP_BASE)
    for cls in gen.alias_classes(probe["expr"], probe["target"][1]):
        for i in cls:
            SWEEP_SIZES[i] = SWEEP_BASE[sorted(cls)[0]]
    w = Worker()
    ctx = {"worker": w}
    try:
        for q, fm in enumerate(fmts_chunk):
            k = offset + q
            first = None
            for pat in (0, 1):
                doks = {}
                case0 = kcheck.case_from_text(text, fm, SWEEP_SIZES, {})
                for n, t in enumerate(dict.fromkeys(x[1] for x in X.tensors(case0["expr"]))):
                    acc = next(x for x in X.tensors(case0["expr"]) if x[1] == t)
                    dims = tuple(SWEEP_SIZES[i] for i in acc[2])
                    doks[t] = kcheck.pattern_dok(dims, pat + 2 * n, salt=k % 3)
                case = kcheck.case_from_text(text, fm, SWEEP_SIZES, doks, capacity=(None, 1, 2)[k % 3])
                fails, produced, exp, status = check_one(case, ctx, native=(pat == 0))
                labels = set(gen.case_features(case)) | {f"template:{name}", "sweep",
                                                         status if not status.startswith("ok") else "kernel_ok"}
                nontrivial = bool(produced and exp is not None and exp.any_nonzero()
                                  and labels & {"contraction", "compressed_level", "ordering_nonidentity", "reused_tensor",
                                                "literal", "broadcast_term"})
                stats.add(case, result(fails, labels, nontrivial, kcheck.case_id(case), kcheck.sample_of(case)))
                if not produced:
                    break
    finally:
        w.close()
    return stats


def still_fails(bucket):
    def pred(c):
        return any(f["bucket"] == bucket for f in check(c, None)["fails"])

    return pred


def shrink_case(case, bucket):
    if bucket.startswith("companion-"):
        return case
    c = dict(case)
    c.pop("companions", None)
    if not still_fails(bucket)(c):
        return case
    out, _n = shrink.minimise_kernel_case(c, still_fails(bucket))
    return out


def replay(payload):
    case = payload["case"]
    w = Worker()
    try:
        return check(case, {"worker": w})["fails"]
    finally:
        w.close()


def run(chk):
    n = 480 if chk.tier == "quick" else 40000
    stats = run_stream(__name__, "main", chk.tier, chk.seed, n)
    chk.absorb(stats, shrink=shrink_case)
    chk.absorb(run_stream(__name__, "literals", chk.tier, chk.seed, 160 if chk.tier == "quick" else 4000), shrink=shrink_case)
    chk.absorb(run_stream(__name__, "lattice", chk.tier, chk.seed, 160 if chk.tier == "quick" else 6000), shrink=shrink_case)
    chk.absorb(run_stream(__name__, "hollow", chk.tier, chk.seed, 160 if chk.tier == "quick" else 6000), shrink=shrink_case)
    # bounded-exhaustive: templates x every format assignment (sampled above the tier limit)
    from .. import templates
    from ..runner import run_tasks

    quick = chk.tier == "quick"
    limit = 96 if quick else 4096
    tasks, exhaustive, sampled = [], [], []
    for name, text, in_quick in templates.TEMPLATES:
        if quick and not in_quick:
            continue
        fmts, complete = templates.enumerate_formats(templates.tensor_orders(text), limit=limit, seed=chk.seed)
        (exhaustive if complete else sampled).append(name)
        for off in range(0, len(fmts), 16):
            tasks.append((name, text, fmts[off : off + 16], off))
    chk.absorb(run_tasks(sweep_task, tasks), shrink=shrink_case)
    chk.coverage_extra["exhaustive_templates"] = exhaustive
    chk.coverage_extra["sampled_templates"] = sampled


def health(cov):
    problems = []
    if cov["evaluations"] and cov["classes"].get("kernel_ok", 0) < 0.2 * cov["evaluations"]:
        problems.append("fewer than 20% of generated cases produced a kernel")
    return problems
