"""C13 - kernel-allocated storage is freed exactly once, after its last user."""
from __future__ import annotations

import itertools
import os

import hypothesis
import hypothesis.errors
from hypothesis import HealthCheck, Phase, settings
from hypothesis import strategies as st
from hypothesis.stateful import RuleBasedStateMachine, invariant, precondition, rule, run_state_machine_as_test

from .. import bridge
from ..native.pool import Worker
from ..runner import VERIF, Stats, fail, jhash, minimise, result, run_tasks

PROP = "C13"
LEVEL = "exploration"
RULE = (
    "histories over {evaluate -> sparse/dense/scalar output (optionally fed by an earlier result), bind a second "
    "name, take t.cffi_tensor, read (to_dok), pickle round trip, delete a name, gc.collect}: (1) every history up "
    "to the tier length over a reduced alphabet, (2) Hypothesis RuleBasedStateMachine histories up to 30 steps. "
    "They run in a persistent child under LD_PRELOAD=build/libinterpose.so, which counts free()/realloc() on the "
    "addresses read from each result's pos/crd/vals arrays and quarantines them. Oracle: a reference-count model "
    "in the parent - after EVERY step each array of an object that still has a live name or live cffi struct has "
    "free_count 0; once the last reference is gone and gc.collect() ran it is exactly 1; it is never 2; at the end "
    "of a history everything is dropped and every array must show exactly 1. non-trivial = history with >=1 "
    "aliasing step (second name / cffi struct / feeding as input) and >=1 deletion that is not the last step on that "
    "object; distinct by step list."
)
ASSUMPTIONS = [
    "free() and realloc() are the only ways the process gives a kernel-allocated array back; the interposer sees "
    "every call because it is first in symbol resolution (LD_PRELOAD)",
    "watched blocks are quarantined (never really released), so addresses are not recycled inside a history",
]

KINDS = ["sparse", "dense", "scalar", "empty", "empty_ds", "direct", "direct_dense", "full_strict"]
IN_KIND = {"sparse": "sparse", "dense": "dense", "scalar": "scalar", "empty": "sparse", "empty_ds": "sparse",
           "direct": "sparse", "direct_dense": "dense", "full_strict": "sparse"}


class ChildDied(Exception):
    pass


class OperationRaised(Exception):
    pass


class History:
    """Executes steps in the child and keeps the reference-count model.  A step that is not applicable in the
    current state (e.g. delete with no names) is a no-op, so any sub-sequence of a history is a history."""

    def __init__(self, worker):
        self.w = worker
        self.names = {}      # name -> {"obj": id|None, "type": "tensor"|"cffi", "kind": kind}
        self.refs = {}       # obj id -> live reference count
        self.pending_gc = set()  # objects whose last reference went away and no gc.collect() ran yet
        self.counter = 0
        self.steps_done = []
        self.fails = []
        self.features = set()
        self.deleted_before_last_use = False
        self.last_use = {}

    def call(self, req):
        rep = self.w.call(req, timeout=600, idempotent=False)
        if "crash" in rep:
            raise ChildDied(rep["crash"])
        if "fatal" in rep:
            raise bridge.HarnessError(rep["fatal"])
        if "error" in rep:
            raise bridge.HarnessError(f"memchild: {rep['error']}\n{rep.get('trace', '')}")
        if "raised" in rep:
            raise OperationRaised(f"{req['cmd']}: {rep['raised']}")
        return rep

    def fresh(self):
        self.counter += 1
        return f"n{self.counter}"

    def tensors(self):
        return [n for n, v in self.names.items() if v["type"] == "tensor"]

    def pick(self, pool, k):
        return pool[k % len(pool)] if pool else None

    def step(self, s):
        """s = [op, a, b]; names are chosen by index modulo the live names (newest last)."""
        op = s[0]
        did = None
        if op == "eval":
            kind = KINDS[s[1] % len(KINDS)]
            src = self.pick(self.tensors(), s[2]) if s[2] >= 0 else None
            out = self.fresh()
            req = {"cmd": "eval", "kind": kind, "out": out}
            if src is not None:
                req["input"] = src
                req["in_kind"] = IN_KIND[self.names[src]["kind"]]
                self.features.add("fed_as_input")
                self.touch(src)
            rep = self.call(req)
            oid = rep["object"]
            if any(rep.get("freed_during_call", [])):
                self.fails.append(fail("freed-during-the-call", f"evaluate -> {kind}: free() was called on {sum(1 for x in rep['freed_during_call'] if x)} of the result's arrays before evaluate returned"))
            self.names[out] = {"obj": oid, "type": "tensor", "kind": kind}
            self.refs[oid] = 1
            did = ["eval", kind, src, out]
        elif op == "alias":
            # (an iterator is not aliased: a second name for a generator says nothing about the tensor once it is drained)
            src = self.pick([n for n, v in self.names.items() if v["type"] != "iter"], s[1])
            if src is not None:
                dst = self.fresh()
                self.call({"cmd": "alias", "src": src, "dst": dst})
                self.names[dst] = dict(self.names[src])
                self.ref(self.names[src]["obj"], +1)
                self.features.add("aliased")
                did = ["alias", src, dst]
        elif op == "cffi":
            src = self.pick(self.tensors(), s[1])
            if src is not None:
                dst = self.fresh()
                self.call({"cmd": "cffi", "src": src, "dst": dst})
                self.names[dst] = {"obj": self.names[src]["obj"], "type": "cffi", "kind": self.names[src]["kind"]}
                self.ref(self.names[src]["obj"], +1)
                self.features.add("aliased")
                self.features.add("cffi_struct_held")
                did = ["cffi", src, dst]
        elif op == "read":
            src = self.pick(self.tensors(), s[1])
            if src is not None:
                self.call({"cmd": "read", "src": src})
                self.touch(src)
                did = ["read", src]
        elif op == "pickle":
            src = self.pick(self.tensors(), s[1])
            if src is not None:
                dst = self.fresh()
                self.call({"cmd": "pickle", "src": src, "dst": dst})
                self.names[dst] = {"obj": None, "type": "tensor", "kind": self.names[src]["kind"]}
                self.touch(src)
                self.features.add("pickled")
                did = ["pickle", src, dst]
        elif op == "iter":
            src = self.pick(self.tensors(), s[1])
            if src is not None:
                dst = self.fresh()
                rep = self.call({"cmd": "iter", "src": src, "dst": dst})
                if rep.get("exhausted"):
                    # nothing stored: the generator finished at once and holds no reference
                    self.names[dst] = {"obj": None, "type": "iter", "kind": self.names[src]["kind"]}
                else:
                    self.names[dst] = {"obj": self.names[src]["obj"], "type": "iter", "kind": self.names[src]["kind"]}
                    self.ref(self.names[src]["obj"], +1)
                    self.features.add("aliased")
                    self.features.add("items_iterator_held")
                did = ["iter", src, dst]
        elif op == "drain":
            its = [n for n, v in self.names.items() if v["type"] == "iter"]
            name = self.pick(its, s[1])
            if name is not None:
                self.call({"cmd": "drain", "name": name})
                v = self.names.pop(name)
                if v["obj"] is not None and self.refs.get(v["obj"], 0) == 1:
                    self.features.add("iterator_outlived_the_tensor")
                if "deleted_while_other_reference_alive" in self.features:
                    self.features.add("used_after_a_deletion")
                self.ref(v["obj"], -1)
                did = ["drain", name]
        elif op == "fail_eval":
            src = self.pick(self.tensors(), s[1])
            if src is not None and self.names[src]["kind"] not in ("scalar",):
                rep = self.call({"cmd": "fail_eval", "src": src, "variant": s[2]})
                if rep.get("raised_and_caught") is None:
                    self.fails.append(fail("refused-call-was-accepted", f"fail_eval variant {s[2] % 4} on {src} returned a result"))
                self.features.add("refused_call_with_result_as_argument")
                self.touch(src)
                did = ["fail_eval", src, s[2] % 4]
        elif op == "del":
            name = self.pick(list(self.names), s[1])
            if name is not None:
                self.call({"cmd": "del", "name": name})
                v = self.names.pop(name)
                self.ref(v["obj"], -1)
                if v["obj"] is not None and self.refs.get(v["obj"], 0) > 0:
                    self.features.add("deleted_while_other_reference_alive")
                did = ["del", name]
        elif op == "gc":
            self.call({"cmd": "gc"})
            self.pending_gc.clear()
            did = ["gc"]
        if did is not None:
            self.steps_done.append(did)
            self.check(after=did)
        return did

    def touch(self, name):
        obj = self.names[name]["obj"]
        if obj is not None and "deleted_while_other_reference_alive" in self.features:
            self.features.add("used_after_a_deletion")

    def ref(self, obj, delta):
        if obj is None:
            return
        self.refs[obj] = self.refs.get(obj, 0) + delta
        if self.refs[obj] == 0:
            self.pending_gc.add(obj)

    def check(self, after):
        counts = self.call({"cmd": "counts"})["counts"]
        for o, cs in counts.items():
            oid = int(o)
            live = self.refs.get(oid, 0) > 0
            for k, c in enumerate(cs):
                if c < 0:
                    raise bridge.HarnessError(f"array of object {oid} is not watched")
                if c > 1:
                    self.fails.append(fail("double-free", f"after {after}: array {k} of object {oid} freed {c} times"))
                elif live and c != 0:
                    self.fails.append(fail("freed-while-referenced", f"after {after}: array {k} of object {oid} was freed but {self.refs[oid]} reference(s) are alive"))
                elif not live and oid not in self.pending_gc and c != 1:
                    self.fails.append(fail("not-freed-after-last-reference", f"after {after}: array {k} of object {oid} has free_count {c} although no reference is left and gc.collect() ran"))

    def finish(self):
        rep = self.call({"cmd": "reset"})
        for o, cs in rep["counts"].items():
            for k, c in enumerate(cs):
                if c == 0:
                    self.fails.append(fail("leak", f"end of history: array {k} of object {o} was never freed"))
                elif c > 1:
                    self.fails.append(fail("double-free", f"end of history: array {k} of object {o} freed {c} times"))
        self.names.clear()
        self.refs.clear()


def make_worker():
    lib = os.path.join(VERIF, "build", "libinterpose.so")
    if not os.path.exists(lib):
        raise bridge.HarnessError("build/libinterpose.so missing: run ./setup.sh")
    return Worker(module="harness.native.memchild", env={"LD_PRELOAD": lib})


def run_history(steps, worker):
    """-> result for a plain step list (replay / exhaustive / shrinking path; library-free)."""
    h = History(worker)
    try:
        for s in steps:
            h.step(s)
        h.finish()
        fails = h.fails
    except ChildDied as e:
        fails = h.fails + [fail("process-died", f"after {h.steps_done[-3:]}: {e}")]
    except OperationRaised as e:
        fails = h.fails + [fail("operation-raises", f"after {h.steps_done[-3:]}: {e}")]
        try:
            h.call({"cmd": "reset"})
        except Exception:  # noqa: BLE001
            worker.close()
    seen = set()
    uniq = [f for f in fails if not (f["bucket"] in seen or seen.add(f["bucket"]))]
    labels = set(h.features) | {f"len{min(len(h.steps_done), 10) if len(h.steps_done) < 10 else '10+'}"}
    nontrivial = ("aliased" in h.features or "fed_as_input" in h.features) and "used_after_a_deletion" in h.features
    return result(uniq, labels, nontrivial, jhash(steps), {"steps": h.steps_done[:40]},
                  {"steps_executed": len(h.steps_done)})


# --------------------------------------------------------------------------- exhaustive
REDUCED = [["eval", 0, -1], ["eval", 5, 0], ["eval", 3, 1000], ["alias", 1000], ["cffi", 1000], ["read", 0],
           ["del", 0], ["del", 1000], ["gc"], ["pickle", 1000]]


# second exhaustive family: a held items() iterator and refused calls between evaluations, deletions and collections
READERS = [["eval", 0, -1], ["eval", 7, 0], ["iter", 1000], ["drain", 0], ["del", 0], ["del", 1000], ["gc"], ["fail_eval", 1000, 0],
           ["fail_eval", 0, 1]]


def exhaustive_task(task):
    prefix, length = task[:2]
    alphabet = READERS if len(task) > 2 and task[2] == "readers" else REDUCED
    stats = Stats()
    w = make_worker()
    try:
        for tail in itertools.product(range(len(alphabet)), repeat=length - len(prefix)):
            steps = [alphabet[k] for k in list(prefix) + list(tail)]
            stats.add({"steps": steps}, run_history(steps, w))
    finally:
        w.close()
    return stats


# ------------------------------------------------------------------------------ stateful
def machine_class(worker, stats):
    class Histories(RuleBasedStateMachine):
        def __init__(self):
            super().__init__()
            self.h = History(worker)
            self.plain = []
            self.dead = False

        def do(self, s):
            if self.dead:
                return
            self.plain.append(s)
            try:
                self.h.step(s)
            except ChildDied as e:
                self.h.fails.append(fail("process-died", f"after {self.h.steps_done[-3:]}: {e}"))
                self.dead = True
            except OperationRaised as e:
                self.h.fails.append(fail("operation-raises", f"after {self.h.steps_done[-3:]}: {e}"))
                self.dead = True
                try:
                    self.h.call({"cmd": "reset"})
                except Exception:  # noqa: BLE001
                    worker.close()

        @rule(kind=st.integers(0, 7))
        def evaluate_fresh(self, kind):
            self.do(["eval", kind, -1])

        @precondition(lambda self: self.h.tensors())
        @rule(kind=st.integers(0, 7), src=st.integers(0, 50))
        def evaluate_from(self, kind, src):
            self.do(["eval", kind, src])

        @precondition(lambda self: self.h.names)
        @rule(src=st.integers(0, 50))
        def alias(self, src):
            self.do(["alias", src])

        @precondition(lambda self: self.h.tensors())
        @rule(src=st.integers(0, 50))
        def take_cffi(self, src):
            self.do(["cffi", src])

        @precondition(lambda self: self.h.tensors())
        @rule(src=st.integers(0, 50))
        def read(self, src):
            self.do(["read", src])

        @precondition(lambda self: self.h.tensors())
        @rule(src=st.integers(0, 50))
        def pickle_round_trip(self, src):
            self.do(["pickle", src])

        @precondition(lambda self: self.h.tensors())
        @rule(src=st.integers(0, 50))
        def start_items_iterator(self, src):
            self.do(["iter", src])

        @precondition(lambda self: any(v["type"] == "iter" for v in self.h.names.values()))
        @rule(k=st.integers(0, 50))
        def drain_iterator(self, k):
            self.do(["drain", k])

        @precondition(lambda self: self.h.tensors())
        @rule(src=st.integers(0, 50), variant=st.integers(0, 3))
        def refused_call(self, src, variant):
            self.do(["fail_eval", src, variant])

        @precondition(lambda self: self.h.names)
        @rule(name=st.integers(0, 50))
        def delete(self, name):
            self.do(["del", name])

        @rule()
        def collect(self):
            self.do(["gc"])

        def teardown(self):
            # collect mode: record instead of raising, so one run enumerates every root cause
            h = self.h
            try:
                if not self.dead:
                    h.finish()
            except ChildDied as e:
                h.fails.append(fail("process-died", f"at end: {e}"))
            seen = set()
            uniq = [f for f in h.fails if not (f["bucket"] in seen or seen.add(f["bucket"]))]
            nontrivial = ("aliased" in h.features or "fed_as_input" in h.features) and "used_after_a_deletion" in h.features
            labels = set(h.features) | {"stateful"}
            stats.add({"steps": self.plain}, result(uniq, labels, nontrivial, jhash(self.plain),
                                                    {"steps": h.steps_done[:40]}, {"steps_executed": len(h.steps_done)}))

    return Histories


def stateful_task(task):
    seed, shard, n = task
    stats = Stats()
    w = make_worker()
    try:
        cls = machine_class(w, stats)
        try:
            run_state_machine_as_test(
                hypothesis.seed(seed * 4001 + shard)(cls),
                settings=settings(max_examples=n, stateful_step_count=30, deadline=None, database=None,
                                  phases=[Phase.generate], suppress_health_check=list(HealthCheck),
                                  report_multiple_bugs=False),
            )
        except hypothesis.errors.HypothesisException as e:
            # on a tree that corrupts memory the child's behaviour is not a function of the drawn steps any more and
            # Hypothesis notices ("flaky"); the failures recorded so far stand, generation just stops early
            stats.counters["stateful_generation_stopped_early:" + type(e).__name__] += 1
    finally:
        w.close()
    return stats


def _dispatch(task):
    return exhaustive_task(task[1]) if task[0] == "ex" else stateful_task(task[1])


def replay(payload):
    w = make_worker()
    try:
        return run_history(payload["case"]["steps"], w)["fails"]
    finally:
        w.close()


def shrink_case(case, bucket):
    w = make_worker()
    try:
        pred = lambda c: any(f["bucket"] == bucket for f in run_history(c["steps"], w)["fails"])  # noqa: E731

        def cands(c):
            st_ = c["steps"]
            for k in range(len(st_)):
                yield {"steps": st_[:k] + st_[k + 1:]}

        return minimise(case, cands, pred, 300)[0] if pred(case) else case
    finally:
        w.close()


def run(chk):
    quick = chk.tier == "quick"
    length = 4 if quick else 5
    tasks = [("ex", ((a, b), length)) for a in range(len(REDUCED)) for b in range(len(REDUCED))]
    tasks += [("ex", ((a,), 1)) for a in range(len(REDUCED))] + [("ex", ((a, b), 2)) for a in range(3) for b in range(len(REDUCED))]
    # every history of that length over the readers alphabet that starts with an evaluation
    tasks += [("ex", ((a, b), length, "readers")) for a in range(2) for b in range(len(READERS))]
    n = 800 if quick else 8000
    tasks += [("st", (chk.seed, s, n // 16)) for s in range(16)]
    chk.absorb(run_tasks(_dispatch, tasks), shrink=shrink_case, kind="history")
    chk.coverage_extra["exhaustive_subdomain"] = f"every history of length {length} over the {len(REDUCED)}-step reduced alphabet"


def health(cov):
    p = []
    if cov["classes"].get("used_after_a_deletion", 0) == 0:
        p.append("no history used an object after one of its references was deleted")
    return p
