"""C15 - generated code is a pure function of the request; caching is invisible."""
from __future__ import annotations

import itertools
import json
import os
import subprocess

from hypothesis import strategies as st

from .. import bridge
from .. import cases as C
from .. import exprs as X
from ..native.pool import PY, Worker
from ..runner import VERIF, Stats, fail, generate_cases, jhash, result, run_tasks
from . import c08

PROP = "C15"
LEVEL = "exploration"
RULE = (
    "(a) a corpus of Hypothesis-generated requests (assignment, formats, kernel kinds, language) is generated in "
    "child processes under PYTHONHASHSEED in {0,1,2,3,random} x request order {forward, reverse, rotated} and, "
    "for a subset, each request alone in its own process; the sha1 of every text must be identical everywhere. "
    "(b) CLI vs library: CliRunner with only the non-dense formats given and -o for a third of the requests must "
    "produce exactly the library text. (c) cache histories: sequences of evaluate()/tensor_method() calls drawn "
    "from a pool that contains the same problem spelled differently (spaces, redundant parentheses, d0d1 vs dd, "
    "keyword order, format-dict order) and near-misses (one mode, one ordering, 1 vs 1.0, renamed index, other "
    "output format), interleaved with cache_clear(); every result must equal the result of the same request on a "
    "cleared cache, and cache hits may occur only for a request whose canonical key (harness-side: parsed tree "
    "printed canonically, formats as (modes, ordering), back end) was seen since the last clear. non-trivial = "
    "request with >=2 index names and >=2 tensors / history that exercises a near-miss after its neighbour; "
    "distinct by request or history."
)
ASSUMPTIONS = [
    "text identity is compared through sha1 digests",
    "the canonical key uses tensora's parser to obtain the tree (checked by C12) and the harness's own printer",
]

HASH_SEEDS = ["0", "1", "2", "3", "random"]


# ------------------------------------------------------------------ (a) determinism of text
def make_corpus(tier, seed, n):
    reqs = []
    for k, p in enumerate(generate_cases(c08.random_problems(tier), n, seed * 8009)):
        if p["shape"] in ("diagonal",):
            continue
        kinds = list(p["kinds"])
        if k % 4 == 0:
            # a kind may be requested more than once (the CLI's -t is repeatable); the text is whatever it is,
            # but it must be the same in every process
            kinds = kinds + [kinds[0]] if len(kinds) > 1 else kinds + ["assemble", kinds[0]]
        reqs.append({"id": k, "assignment": p["assignment"], "formats": p["formats"], "kinds": kinds,
                     "language": p["language"]})
    return reqs


def gen_in_child(args):
    reqs, order, hseed = args
    env = dict(os.environ)
    env["PYTHONHASHSEED"] = hseed
    env["PYTHONPATH"] = os.pathsep.join([VERIF, bridge.REPO_SRC])
    cp = subprocess.run([PY, os.path.join(VERIF, "tools", "gen_texts.py")], input=json.dumps({"requests": reqs, "order": order}),
                        capture_output=True, text=True, env=env, timeout=1200)
    if cp.returncode != 0:
        raise bridge.HarnessError(f"gen_texts child failed: {cp.stderr[-800:]}")
    return json.loads(cp.stdout.strip().splitlines()[-1])


def determinism_stats(tier, seed, n, alone):
    import multiprocessing as mp

    reqs = make_corpus(tier, seed, n)
    ids = [r["id"] for r in reqs]
    orders = {"forward": ids, "reverse": ids[::-1], "rotated": ids[len(ids) // 3:] + ids[: len(ids) // 3]}
    jobs = []
    tags = []
    for hs in HASH_SEEDS:
        for oname, order in orders.items():
            jobs.append((reqs, order, hs))
            tags.append(f"hashseed={hs},order={oname}")
    for r in reqs[:alone]:
        jobs.append(([r], [r["id"]], "7"))
        tags.append(f"alone:{r['id']}")
    with mp.get_context("fork").Pool(16) as pool:
        outs = pool.map(gen_in_child, jobs)
    stats = Stats()
    ref = outs[0]
    for r in reqs:
        rid = str(r["id"])
        seen = {}
        for tag, o in zip(tags, outs):
            if rid in o:
                seen.setdefault(o[rid], []).append(tag)
        fails = []
        if len(seen) > 1:
            fails.append(fail("text-differs-between-runs", f"{r['assignment']} {r['formats']} {r['kinds']} {r['language']}: "
                              + "; ".join(f"{d[:10]}: {t[:3]}" for d, t in seen.items())))
        idx = set(X_indexes(r["assignment"]))
        nontrivial = len(idx) >= 2 and len(r["formats"]) >= 3 and not ref.get(rid, "F:").startswith(("F:", "EXC:"))
        labels = {"determinism", f"lang:{r['language']}", "status:" + ("code" if not ref.get(rid, "F:").startswith(("F:", "EXC:")) else ref[rid])}
        stats.add(r, result(fails, labels, nontrivial, jhash(r), {k: r[k] for k in ("assignment", "formats", "kinds", "language")},
                            {"generations": sum(1 for o in outs if rid in o)}))
    stats.counters["processes"] += len(jobs)
    return stats


def X_indexes(text):
    import re

    return re.findall(r"[(,]\s*([A-Za-z][A-Za-z0-9]*)", text)


# ------------------------------------------------------------------------ (b) CLI == library
def library_text(p, names_order):
    """Text (or 'F:<Error>') for the request with its formats mentioned in the given order."""
    from returns.result import Failure
    from tensora.expression import parse_assignment
    from tensora.format import parse_format
    from tensora.generate import Language, generate_code
    from tensora.kernel_type import KernelType
    from tensora.problem import make_problem

    asg = parse_assignment(p["assignment"]).unwrap()
    fm = {n: parse_format(p["formats"][n]).unwrap() for n in names_order}
    prob = make_problem(asg, fm)
    if isinstance(prob, Failure):
        return "F:" + type(prob.failure()).__name__
    res = generate_code(prob.unwrap(), [KernelType[k] for k in p["kinds"]], Language[p["language"]])
    return "F:" + type(res.failure()).__name__ if isinstance(res, Failure) else res.unwrap()


def mention_order_fails(p):
    """The order in which formats are mentioned (dict order, order of -f flags) is not part of the request."""
    from typer.testing import CliRunner

    from tensora.cli import app

    names = list(p["formats"])
    orders = [names, names[::-1], names[1:] + names[:1]]
    texts = [library_text(p, o) for o in orders]
    d = f"{p['assignment']} {p['formats']} {p['kinds']} {p['language']}"
    fails = []
    if len(set(texts)) > 1:
        fails.append(fail("text-depends-on-format-mention-order", f"{d}: library text differs between mention orders "
                          f"{orders[0]} / {orders[1]} / {orders[2]}"))
    elif not texts[0].startswith("F:"):
        args = [p["assignment"]]
        for n in names[::-1]:
            args += ["-f", f"{n}:{p['formats'][n]}"]
        for k in p["kinds"]:
            args += ["-t", k]
        args += ["-l", p["language"]]
        r = CliRunner().invoke(app, args)
        if r.exit_code != 0 or r.stdout != texts[0] + "\n":
            fails.append(fail("cli-text-depends-on-flag-order", f"{d}: -f flags in reverse order give different output"))
    return fails


def cli_task(task):
    tier, seed, shard, n = task
    stats = Stats()
    for p in generate_cases(c08.random_problems(tier), n, seed * 8011 + shard):
        if p["shape"] in ("diagonal", "broadcast"):
            continue
        fails, info = c08.check_problem(p, do_cli=True)
        fails = [f for f in fails if f["bucket"].startswith("cli-")]
        fails += mention_order_fails(p)
        dense_omitted = any(set(f) <= {"d"} for f in p["formats"].values())
        labels = {"cli", f"status:{info['status']}"}
        if dense_omitted:
            labels.add("has_all_dense_tensor(may_be_unmentioned)")
        stats.add(p, result(fails, labels, info["status"] == "code", jhash([p["assignment"], p["formats"], p["kinds"], p["language"]]),
                            {k: p[k] for k in ("assignment", "formats", "kinds", "language")}, {"cli_runs": 1}))
    return stats


# ------------------------------------------------------------------------ (c) cache histories
BASES = [
    {"text": "y(i) = A(i,j) * x(j) + 1", "target": "y", "out": "d", "fm": {"A": "ds", "x": "d"}, "dims": {"A": (2, 3), "x": (3,)}},
    {"text": "y(i,j) = A(i,j) + B(i,j)", "target": "y", "out": "ds", "fm": {"A": "ds", "B": "ds"}, "dims": {"A": (2, 3), "B": (2, 3)}},
    {"text": "y(i) = a(i) * b(i) - 2", "target": "y", "out": "s", "fm": {"a": "s", "b": "s"}, "dims": {"a": (4,), "b": (4,)}},
    {"text": "y(j,i) = A(i,j) * 1.5", "target": "y", "out": "dd", "fm": {"A": "ds"}, "dims": {"A": (2, 3)}},
    # two operands of the same order in different formats: swapping the formats gives another problem whose format
    # *values* are the same multiset (a cache key that forgets which tensor has which format confuses them)
    {"text": "y(i) = a(i) + b(i) * 2", "target": "y", "out": "d", "fm": {"a": "s", "b": "d"}, "dims": {"a": (4,), "b": (4,)}},
    {"text": "y(i,j) = A(i,j) * B(i,j)", "target": "y", "out": "ds", "fm": {"A": "ds", "B": "dd"}, "dims": {"A": (2, 3), "B": (2, 3)}},
]


def spell(text, k):
    """Equal spellings of the same assignment."""
    if k == 0:
        return text
    if k == 1:
        return text.replace(" ", "")
    if k == 2:
        return "  " + text.replace(" = ", "   =  ").replace(",", " , ") + "  "
    lhs, rhs = text.split(" = ")
    return f"{lhs} = ({rhs})"  # redundant outer parentheses: same tree


def equal_format(fmt, k):
    modes, ordering = C.fmt_parts(fmt)
    if k % 2 == 0 or not modes:
        return fmt
    return "".join(f"{m}{o}" for m, o in zip(modes, ordering))  # explicit ordering spelling


def near_miss(base, k):
    """(text, out, fm) of a *different* problem close to base."""
    b = dict(base)
    fm = dict(base["fm"])
    text = base["text"]
    out = base["out"]
    kind = k % 7
    if kind == 6:
        names = sorted(fm)
        if len(names) >= 2 and len(C.fmt_parts(fm[names[0]])[0]) == len(C.fmt_parts(fm[names[1]])[0]):
            fm[names[0]], fm[names[1]] = fm[names[1]], fm[names[0]]
        return text, out, fm
    if kind == 0 and " 1" in text or kind == 0 and " 2" in text:
        text = text.replace("+ 1", "+ 1.0").replace("- 2", "- 2.0")
    elif kind == 1:
        text = text.replace("j", "k") if "j" in text else text.replace("i", "m")
    elif kind == 2:
        out = "".join("s" if c == "d" else "d" for c in out) or out
    elif kind == 3:
        n = sorted(fm)[0]
        modes, ordering = C.fmt_parts(fm[n])
        fm[n] = C.fmt_text(tuple("s" if m == "d" else "d" for m in modes[:1]) + modes[1:], ordering)
    elif kind == 4:
        n = sorted(fm)[0]
        modes, ordering = C.fmt_parts(fm[n])
        if len(modes) >= 2:
            fm[n] = C.fmt_text(modes, tuple(reversed(ordering)))
    else:
        text = text.replace(" * ", " + ", 1) if " * " in text else text
    return text, out, fm


def data_for(name, dims, fmt, variant):
    dok = {}
    for c in itertools.product(*[range(d) for d in dims]):
        h = (sum((q + 2) * v for q, v in enumerate(c)) + len(name) + variant) % 3
        if h:
            dok[c] = float(h + variant) / 2
    modes, ordering = C.fmt_parts(fmt)
    levels, vals = C.levels_from_dok(dok, dims, modes, ordering)
    return {"dims": list(dims), "fmt": fmt, "stored": {"levels": levels, "vals": vals}}


@st.composite
def cache_histories(draw, tier):
    base = draw(st.integers(0, len(BASES) - 1))
    n = draw(st.integers(4, 14))
    steps = []
    for _ in range(n):
        r = draw(st.integers(0, 9))
        if r == 0:
            steps.append({"clear": True})
            continue
        steps.append({
            "base": base if draw(st.integers(0, 4)) else draw(st.integers(0, len(BASES) - 1)),
            "near": draw(st.sampled_from([0, 1, 2, 3, 4, 5, 6, 6])) if r >= 6 else None,
            "spelling": draw(st.integers(0, 3)),
            "fmt_spelling": draw(st.integers(0, 1)),
            "entry": draw(st.sampled_from(["evaluate", "method"])),
            "reverse_kwargs": draw(st.booleans()),
            "reverse_formats": draw(st.booleans()),
            "variant": draw(st.integers(0, 2)),
        })
    return {"steps": steps}


def materialise(step):
    b = BASES[step["base"]]
    if step["near"] is None:
        text, out, fm = b["text"], b["out"], dict(b["fm"])
    else:
        text, out, fm = near_miss(b, step["near"])
    stext = spell(text, step["spelling"])
    names = sorted(fm)
    formats = [(b["target"], equal_format(out, step["fmt_spelling"]))] + [(n, equal_format(fm[n], step["fmt_spelling"])) for n in names]
    if step["reverse_formats"]:
        formats = formats[::-1]
    order = names[::-1] if step["reverse_kwargs"] else names
    inputs = {n: data_for(n, b["dims"][n], fm[n], step["variant"]) for n in names}
    return {"entry": step["entry"], "assignment": stext, "formats": formats, "target": b["target"], "inputs": inputs,
            "kwargs_order": order}


def canonical_key(req):
    """Harness-side identity of a request: canonical tree text + formats as (modes, ordering), in canonical order."""
    bridge.ensure_tensora()
    from tensora.expression import parse_assignment

    asg = parse_assignment(req["assignment"]).unwrap()
    tree = X.from_tensora(asg.expression)
    text = X.assignment_text([asg.target.name, list(asg.target.indexes)], tree)
    fm = dict(req["formats"])
    names = list(asg.variable_orders().keys())
    return (text, tuple((n, C.fmt_parts(fm[n])) for n in names), "llvm")


def check_history(case, worker):
    reqs = [None if s.get("clear") else materialise(s) for s in case["steps"]]
    wire = [{"clear": True} if r is None else r for r in reqs]
    rep = worker.call({"op": "cache_history", "steps": wire}, timeout=600)
    if "crash" in rep:
        return result([fail("process-crashed", f"cache history: {rep['crash']}")], {"cache"}, True, jhash(case), None)
    if "error" in rep:
        raise bridge.HarnessError(rep["error"] + rep.get("trace", ""))
    # isolated reference: every distinct request in a fresh process (a fork of a zygote that has only imported
    # tensora), so no cache of any kind - not only the one the harness knows how to clear - can leak into it
    distinct = {}
    for r in reqs:
        if r is not None:
            distinct.setdefault(jhash(r), r)
    iso_by = {}
    for h, r in distinct.items():
        if h not in FRESH_MEMO:
            f = fresh_worker().call({"op": "fresh", "request": r}, timeout=300)
            if "crash" in f or "error" in f:
                raise bridge.HarnessError(f"fresh-process reference failed: {f}")
            if "crash_in_fresh_process" in f:
                f = {"raised": "ProcessCrashed: " + f["crash_in_fresh_process"]}
            if len(FRESH_MEMO) > 4000:
                FRESH_MEMO.clear()
            FRESH_MEMO[h] = f
        iso_by[h] = FRESH_MEMO[h]
    fails = []
    seen = set()
    labels = {"cache"}
    near_after_neighbour = False
    for s, r, o in zip(case["steps"], reqs, rep["steps"]):
        if r is None:
            seen.clear()
            continue
        key = canonical_key(r)
        ref = iso_by[jhash(r)]
        d = f"{r['entry']}({r['assignment']!r}, {r['formats']}) kwargs {r['kwargs_order']}"
        if "raised" in ref:
            labels.add("request_refused:" + ref["raised"].split(":")[0])
            if "raised" not in o or o["raised"].split(":")[0] != ref["raised"].split(":")[0]:
                fails.append(fail("refusal-depends-on-cache-state", f"{d}: isolated {ref['raised']} vs in history {o.get('raised', 'a result')}"))
        elif "raised" in o:
            fails.append(fail("raises-only-in-history", f"{d}: {o['raised']}"))
        elif o["raw"] != ref["raw"]:
            fails.append(fail("cached-result-differs-from-fresh", f"{d}: {o['raw']} vs {ref['raw']}"))
        if o.get("hits", 0) > 0 and key not in seen:
            fails.append(fail("cache-hit-for-a-different-problem", f"{d}: cache hit although canonical key {key} was not requested since the last clear"))
        if o.get("hits", 0) > 0:
            labels.add("cache_hit")
        if key in seen and o.get("hits", 0) == 0 and "raised" not in o:
            labels.add("same_problem_missed_cache(not a violation)")
        if s["near"] is not None and any(k[0] != key[0] or k[1] != key[1] for k in seen):
            near_after_neighbour = True
        if s["spelling"] or s["fmt_spelling"] or s["reverse_kwargs"] or s["reverse_formats"]:
            labels.add("alternative_spelling")
        seen.add(key)
    uniq = []
    sb = set()
    for f in fails:
        if f["bucket"] not in sb:
            sb.add(f["bucket"])
            uniq.append(f)
    sample = {"steps": [("clear" if r is None else [r["entry"], r["assignment"], r["formats"]]) for r in reqs][:8]}
    return result(uniq, labels, near_after_neighbour and "cache_hit" in labels, jhash(case), sample,
                  {"cache_steps": len(reqs)})


FRESH_MEMO = {}   # request hash -> answer of a fresh process (a pure function of the request and the tree under test)
_FRESH = []


def fresh_worker():
    if not _FRESH:
        _FRESH.append(Worker(module="harness.native.zygote"))
    return _FRESH[0]


def close_fresh_worker():
    while _FRESH:
        _FRESH.pop().close()


def cache_task(task):
    tier, seed, shard, n = task
    stats = Stats()
    w = Worker(module="harness.native.worker2")
    try:
        for case in generate_cases(cache_histories(tier), n, seed * 8017 + shard):
            stats.add(case, check_history(case, w))
    finally:
        w.close()
        close_fresh_worker()
    return stats


def _dispatch(task):
    return cli_task(task[1]) if task[0] == "cli" else cache_task(task[1])


def replay(payload):
    case = payload["case"]
    if "steps" in case:
        w = Worker(module="harness.native.worker2")
        try:
            return check_history(case, w)["fails"]
        finally:
            w.close()
            close_fresh_worker()
    if payload.get("kind") == "request":
        st_ = Stats()
        outs = [gen_in_child(([case], [case["id"]], hs)) for hs in ("0", "1", "2", "3")]
        if len({json.dumps(o, sort_keys=True) for o in outs}) > 1:
            return [fail("text-differs-between-runs", f"{case['assignment']} {case['formats']}")]
        return []
    fails, _ = c08.check_problem(case, do_cli=True)
    return [f for f in fails if f["bucket"].startswith("cli-")] + mention_order_fails(case)


def run(chk):
    quick = chk.tier == "quick"
    chk.absorb(determinism_stats(chk.tier, chk.seed, 120 if quick else 1200, 8 if quick else 48), kind="request")
    tasks = [("cli", (chk.tier, chk.seed, s, (160 if quick else 4000) // 8)) for s in range(8)]
    tasks += [("cache", (chk.tier, chk.seed, s, (240 if quick else 3000) // 8)) for s in range(8)]
    chk.absorb(run_tasks(_dispatch, tasks), kind="history")
