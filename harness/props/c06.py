"""C06 - the C and LLVM back ends implement the same kernel (and both agree with the IR)."""
from __future__ import annotations

import json

import pickle
import struct

from hypothesis import strategies as st

from .. import bridge
from .. import cases as C
from .. import exprs as X
from .. import gen, kcheck, kprops
from ..machine import Interp, Machine, Ptr, TensorStruct, Trap
from ..native.cbatch import Batch, syntax_check
from ..native.pool import Worker
from ..runner import Stats, fail, generate_cases, jhash, result, run_tasks

PROP = "C06"
LEVEL = "translation_validation"
RULE = (
    "(a) generated problems x inputs (half of them with general floating-point values): the module "
    "[evaluate, assemble, compute] is printed to C and compiled with gcc -std=c11 -fsanitize=address,undefined "
    "(strict -Werror set, published preamble) in batches, JIT-compiled by tensora's LLVM path in a worker, and "
    "executed on the IR abstract machine; pos/crd arrays and the 64-bit patterns of vals must be identical in all "
    "three. (b) Hypothesis-generated well-typed IR programs (int/double/bool expressions depth<=4, mixed "
    "promotion, comparisons, short-circuit and/or, min/max, BooleanToInteger, compound-assignment sugar, "
    "branches, bounded loops) x 5 environments, same three-way bitwise comparison. non-trivial = (a) program "
    "with >=1 executed loop iteration, (b) program with >=2 operator classes and a right-nested + - or *; "
    "distinct by hash of the program text."
)
ASSUMPTIONS = [
    "gcc 12 -O1 with ASan/UBSan and the LLVM MCJIT evaluate IEEE double arithmetic without contraction "
    "(no -ffast-math, x86-64 SSE2); the machine uses Python floats (binary64)",
    "programs whose original traps on the machine (int32 overflow, out-of-bounds) are UB in C and are not compared",
    "the LLVM module is verified by llvmlite inside tensora.compile.compile_module (parse_assembly + verify)",
]

BATCH = 24


def bits(v):
    return struct.unpack("<Q", struct.pack("<d", float(v)))[0]


# ------------------------------------------------------------------- C re-association model (F-K)
def c_reassociate_function(fn):
    """The tree a C compiler parses from the text ir_to_c prints: a + (b + c) is printed a + b + c and
    parsed (a + b) + c; likewise a + (b - c) and a * (b * c).  Compound assignments keep their right
    operand as a unit."""
    from dataclasses import replace

    from tensora.ir import ast as A

    def ex(e):
        if isinstance(e, (A.Add, A.Subtract, A.Multiply)):
            l, r = ex(e.left), ex(e.right)
            if isinstance(e, A.Add):
                if isinstance(r, A.Add):
                    return ex(A.Add(A.Add(l, r.left), r.right))
                if isinstance(r, A.Subtract):
                    return ex(A.Subtract(A.Add(l, r.left), r.right))
                return A.Add(l, r)
            if isinstance(e, A.Multiply):
                if isinstance(r, A.Multiply):
                    return ex(A.Multiply(A.Multiply(l, r.left), r.right))
                return A.Multiply(l, r)
            return A.Subtract(l, r)
        if isinstance(e, A.ArrayIndex):
            return A.ArrayIndex(ex(e.target), ex(e.index))
        if isinstance(e, A.AttributeAccess):
            return A.AttributeAccess(ex(e.target), e.attribute)
        if isinstance(e, (A.Equal, A.NotEqual, A.GreaterThan, A.LessThan, A.GreaterThanOrEqual, A.LessThanOrEqual,
                          A.And, A.Or, A.Max, A.Min)):
            return replace(e, left=ex(e.left), right=ex(e.right))
        if isinstance(e, A.BooleanToInteger):
            return A.BooleanToInteger(ex(e.expression))
        if isinstance(e, A.ArrayAllocate):
            return replace(e, n_elements=ex(e.n_elements))
        if isinstance(e, A.ArrayReallocate):
            return replace(e, old=ex(e.old), n_elements=ex(e.n_elements))
        return e

    def stmt(s):
        if isinstance(s, A.Block):
            return A.Block([stmt(x) for x in s.statements], s.comment)
        if isinstance(s, A.Branch):
            return A.Branch(ex(s.condition), stmt(s.if_true), stmt(s.if_false))
        if isinstance(s, A.Loop):
            return A.Loop(ex(s.condition), stmt(s.body))
        if isinstance(s, A.Return):
            return A.Return(ex(s.value))
        if isinstance(s, A.DeclarationAssignment):
            return A.DeclarationAssignment(s.target, ex(s.value))
        if isinstance(s, A.Assignment):
            v = s.value
            if isinstance(v, (A.Add, A.Subtract, A.Multiply)) and v.left == s.target:
                return A.Assignment(ex(s.target), type(v)(ex(v.left), ex(v.right)))
            return A.Assignment(ex(s.target), ex(v))
        if isinstance(s, A.Expression):
            return ex(s)
        return s

    return replace(fn, body=stmt(fn.body))


def has_float_reassociation(fn):
    return c_reassociate_function(fn) != fn


# ------------------------------------------------------------------------- (a) kernels
@st.composite
def kernel_cases(draw, tier):
    if draw(st.integers(0, 5)) == 0:
        c = draw(gen.hollow_cases(value_class="exact"))
        c["capacity"] = draw(st.sampled_from([1, 2, None]))
        return c
    c = draw(gen.kernel_cases(max_leaves=4 if tier == "quick" else 5,
                              value_class=draw(st.sampled_from(["general", "exact"])),
                              sparse_output_bias=draw(st.booleans()), min_dim=1))
    c["capacity"] = draw(st.sampled_from([1, 2, None]))
    if draw(st.integers(0, 4)) == 0:
        # identity / annihilator literals (x * 0, 0 + x, x * 1.0, x - 0 ...): what an optimiser removes is not exact on
        # IEEE doubles (-3.0 * 0 is -0.0), so routes that optimise differently disagree in the bit pattern
        def wrap(t):
            lit = draw(st.sampled_from([["i", 0], ["i", 0], ["i", 1], ["f", "0.0"], ["f", "1.0"]]))
            op = draw(st.sampled_from("**+-"))
            return [op, t, lit] if (op == "-" or draw(st.booleans())) else [op, lit, t]

        def rec(t):
            if X.is_leaf(t):
                return wrap(t) if (t[0] == "t" and draw(st.integers(0, 2)) == 0) else t
            return [t[0], rec(t[1]), rec(t[2])]

        tree = rec(c["expr"])
        if draw(st.booleans()):
            tree = wrap(tree)
        keep = c.get("capacity")
        c = kcheck.with_tree(c, tree)
        c["capacity"] = keep
        c["identity_literals"] = True
    return c


def machine_outputs(case, fns, transform=None):
    """-> dict tag -> {'levels': [...], 'vals': [bits]} or raises Trap."""
    get = (lambda k: transform(fns[k])) if transform else (lambda k: fns[k])
    out = {}
    m, structs, _ = bridge.run_on_machine(case, get("evaluate"))
    st_ = structs[case["target"][0]]
    errs, stored, arrays, n = C.decode_struct(st_, strict=False)
    if stored is None:
        raise Trap("machine-invalid", str(errs))
    vb = st_.fields["vals"].block
    out["evaluate"] = {"levels": arrays, "vals": [bits(v) for v in (vb.tolist(n) if vb else [])]}
    m2, structs2, _ = bridge.run_on_machine(case, get("assemble"))
    st2 = structs2[case["target"][0]]
    out["assemble"] = {"levels": [None if b is None else b for b in _struct_levels(st2)], "vals": None}
    bridge.run_on_machine(case, get("compute"), machine=m2, output_struct=st2)
    errs, stored, arrays, n = C.decode_struct(st2, strict=False)
    if stored is None:
        raise Trap("machine-invalid", str(errs))
    vb = st2.fields["vals"].block
    out["compute"] = {"levels": arrays, "vals": [bits(v) for v in (vb.tolist(n) if vb else [])]}
    return out


def _struct_levels(st_):
    errs, _s, arrays, _n = C.decode_struct(st_, strict=False, structure_only=True)
    if arrays is None:
        raise Trap("machine-invalid", str(errs))
    return arrays


def norm_levels(levels):
    return [None if lv is None else [list(lv[0]), list(lv[1])] for lv in levels]


def c_output(res, tag, modes):
    o = res["out"].get(tag)
    if o is None or not o["done"]:
        return None
    levels = [None if md == "d" else [o["pos"].get(l), o["crd"].get(l)] for l, md in enumerate(modes)]
    return {"levels": levels, "vals": o["vals"]}


def llvm_output(rep, tag):
    r = rep["out"].get(tag)
    if r is None or r["problem"]:
        return None
    return {"levels": norm_levels(r["levels"]), "vals": None if r["vals"] is None else [bits(v) for v in r["vals"]]}


NEG_ZERO = 0x8000000000000000


def zero_insensitive(vals):
    return None if vals is None else [0 if v == NEG_ZERO else v for v in vals]


def same(a, b, with_vals=True, zero_sign=True):
    """Bitwise equality; with zero_sign=False the sign of zero is ignored (only used for gcc, which folds
    ``0.0 - (double)i`` to ``-(double)i`` at every optimisation level - a compiler quirk, not tensora's)."""
    if a is None or b is None:
        return False
    if norm_levels(a["levels"]) != norm_levels(b["levels"]):
        return False
    if not with_vals:
        return True
    if zero_sign:
        return a["vals"] == b["vals"]
    return zero_insensitive(a["vals"]) == zero_insensitive(b["vals"])


def kernel_shard(task):
    tier, seed, shard, n_cases, sanitize, cc = task[:6]
    strategy = kernel_cases
    if len(task) > 6:  # another property's generator (C05 runs its own shapes through the native stage)
        import importlib

        modname, fname = task[6].split(":")
        strategy = getattr(importlib.import_module(modname), fname)
    cases = generate_cases(strategy(tier), n_cases, seed * 7001 + shard)
    stats = Stats()
    # the LLVM module is generated in another process (as evaluate's is, relative to the CLI's C) under another hash
    # seed: a kernel whose loop or summation order depends on set iteration order shows up as a three-way split
    worker = Worker(module="harness.native.worker2", env={"PYTHONHASHSEED": str(1 + shard % 7)})
    try:
        for i in range(0, len(cases), BATCH):
            process_kernel_batch(cases[i : i + BATCH], stats, worker, sanitize, cc)
    finally:
        worker.close()
    return stats


def process_kernel_batch(cases, stats, worker, sanitize=True, cc="clang-14"):
    batch = Batch(sanitize=sanitize, cc=cc)
    zs = cc.startswith("clang")
    prepared = []
    for n, case in enumerate(cases):
        labels = set(gen.case_features(case))
        status, mod = bridge.build_module(case, ("evaluate", "assemble", "compute"), capacity=case.get("capacity"))
        if status != "ok":
            w = mod if isinstance(mod, str) else mod[0]
            stats.add(case, result([], labels | {f"{status}:{w}"}, False, kcheck.case_id(case), None))
            continue
        fns = bridge.functions_of(mod)
        try:
            mout = machine_outputs(case, fns)
        except Trap as t:
            stats.add(case, result([], labels | {f"machine-trap-skipped:{t.kind}"}, False, kcheck.case_id(case), None))
            continue
        # the C under test is the text the public generate_code() returns (what the CLI prints), not a private printing
        # of the module the harness built; the abstract machine runs the module, the LLVM worker goes through
        # TensorMethod for evaluate - three routes to 'the same kernel', as the property has it
        try:
            ctext = bridge.public_code(case, ("evaluate", "assemble", "compute"), "c", capacity=case.get("capacity"))
        except bridge.HarnessError:
            raise
        except Exception as e:  # noqa: BLE001
            stats.add(case, result([fail(f"generate_code-raises:{type(e).__name__}", kprops.ctx_desc(case))], labels, False, kcheck.case_id(case), None))
            continue
        if ctext is None:
            stats.add(case, result([fail("generate_code-refuses-what-generate_module-builds", kprops.ctx_desc(case))], labels, False,
                                   kcheck.case_id(case), None))
            continue
        batch.add(n, case, mod, c_text=ctext)
        prepared.append((n, case, mod, fns, mout, labels))
    if not prepared:
        return
    rejected, cres = batch.build_and_run_isolating()
    for n, case, mod, fns, mout, labels in prepared:
        fails = []
        d = kprops.ctx_desc(case, case.get("capacity"))
        modes, _ord = C.fmt_parts(case["formats"][case["target"][0]])
        comparisons = 0
        # ---- C
        if n in rejected:
            fails.append(fail("c-does-not-compile", f"{d}: {rejected[n][-400:]}"))
            cr = None
        else:
            cr = cres.get(n)
            if cr is None or cr["status"] != "exit 0":
                log = " | ".join((cr or {}).get("log", [])[:4])
                fails.append(fail(f"c-runtime:{(cr or {}).get('status')}", f"{d}: {log}"))
                cr = None
        # ---- LLVM
        rep = worker.call({"op": "llvm_kernels", "case": case, "kinds": ["evaluate", "assemble", "compute"], "public_evaluate": True})
        if "crash" in rep:
            fails.append(fail("llvm-crash", f"{d}: {rep['crash']}"))
            rep = None
        elif "error" in rep:
            raise bridge.HarnessError(rep["error"] + rep.get("trace", ""))
        elif "llvm_compile_error" in rep:
            fails.append(fail("llvm-module-rejected", f"{d}: {rep['llvm_compile_error']}"))
            rep = None
        elif "nobuild" in rep:
            raise bridge.HarnessError(f"worker could not rebuild a module the parent built: {rep}")
        if rep is not None and rep.get("guard_zones_overwritten"):
            fails.append(fail("llvm-writes-past-allocation", f"{d}: {rep['guard_zones_overwritten']} guard zone(s) behind "
                              "blocks allocated by the JIT-compiled kernels were overwritten"))
        if rep is not None and "guard_zones_overwritten" in rep:
            labels.add("llvm_guarded_allocator")
        reassoc = None
        for tag in ("evaluate", "assemble", "compute"):
            wv = tag != "assemble"
            mo = mout[tag]
            if cr is not None:
                comparisons += 1
                if cr["rc"].get(tag) != 0:
                    fails.append(fail("c-nonzero-return", f"{d}: {tag} rc={cr['rc'].get(tag)}"))
                co = c_output(cr, tag, modes)
                if cr["input_modified"]:
                    fails.append(fail("c-input-modified", f"{d}: {cr['input_modified'][:2]}"))
                if not same(co, mo, wv, zs):
                    if reassoc is None:
                        try:
                            reassoc = machine_outputs(case, fns, c_reassociate_function)
                        except Trap:
                            reassoc = {}
                    if reassoc.get(tag) is not None and same(co, reassoc[tag], wv, zs) and same(co, mo, False):
                        fails.append(fail("c-reassociates-float-expression",
                                          f"{d}: {tag}: C differs from IR/LLVM exactly as (a+(b+c) -> (a+b)+c) predicts",
                                          reassociation=True))
                    else:
                        fails.append(fail(f"c-differs-from-ir:{tag}", f"{d}: C {co} vs machine {mo}"))
            if rep is not None:
                comparisons += 1
                if rep["rc"].get(tag) != 0:
                    fails.append(fail("llvm-nonzero-return", f"{d}: {tag}"))
                lo = llvm_output(rep, tag)
                if not same(lo, mo, wv):
                    fails.append(fail(f"llvm-differs-from-ir:{tag}", f"{d}: LLVM {lo} vs machine {mo}"))
        if rep is not None:
            # evaluate as a user gets it (TensorMethod's own module) against the direct execution of the IR
            if "public_evaluate_raised" in rep:
                fails.append(fail("tensor-method-raises", f"{d}: {rep['public_evaluate_raised']}"))
            elif "evaluate_public" in rep["out"]:
                comparisons += 1
                if rep.get("guard_zones_overwritten_public"):
                    fails.append(fail("llvm-writes-past-allocation", f"{d}: evaluate through TensorMethod: {rep['guard_zones_overwritten_public']} "
                                      "guard zone(s) overwritten"))
                lo = llvm_output(rep, "evaluate_public")
                if not same(lo, mout["evaluate"], True):
                    fails.append(fail("llvm-differs-from-ir:evaluate-through-tensor-method", f"{d}: TensorMethod {lo} vs machine {mout['evaluate']}"))
                labels.add("evaluate_through_tensor_method")
        loops = "contraction" in labels or any(s > 0 for s in case["sizes"].values())
        if has_float_reassociation(fns["evaluate"]):
            labels.add("right_nested_float_expression")
        labels.add("three_way_compared")
        s = kcheck.sample_of(case)
        stats.add(case, result(fails, labels, loops and not fails, kcheck.case_id(case), s,
                               {"comparisons": comparisons, "programs": 1}))


# -------------------------------------------------------------------- (b) IR programs
INTV = ["x0", "x1", "x2", "x3"]
FLTV = ["f0", "f1", "f2", "f3"]
INT_LITS = [0, 1, 2, 3, -1, 7]
FLT_LITS = [0.0, 1.0, 0.5, 2.5, 0.1, -1.5, 1e16, 0.30000000000000004, 3.141592653589793, 1234567890123456.0, 5e-324, -0.0, 0.0]


@st.composite
def ir_expr(draw, ty, depth):
    """Expression as a nested list: ['var', name] ['int', v] ['flt', v] ['bool', v] [op, l, r] ['b2i', e]."""
    if ty == "int":
        if depth == 0 or draw(st.integers(0, 9)) < 3:
            if draw(st.booleans()):
                return ["var", draw(st.sampled_from(INTV))]
            return ["int", draw(st.sampled_from(INT_LITS))]
        r = draw(st.integers(0, 9))
        if r < 6:
            return [draw(st.sampled_from(["Add", "Subtract", "Multiply"])), draw(ir_expr("int", depth - 1)),
                    draw(ir_expr("int", depth - 1))]
        if r < 8:
            return [draw(st.sampled_from(["Min", "Max"])), draw(ir_expr("int", depth - 1)), draw(ir_expr("int", depth - 1))]
        return ["b2i", draw(ir_expr("bool", depth - 1))]
    if ty == "float":
        if depth == 0 or draw(st.integers(0, 9)) < 3:
            if draw(st.booleans()):
                return ["var", draw(st.sampled_from(FLTV))]
            return ["flt", draw(st.sampled_from(FLT_LITS))]
        op = draw(st.sampled_from(["Add", "Subtract", "Multiply"]))
        k = draw(st.integers(0, 3))
        lt, rt = [("float", "float"), ("float", "float"), ("int", "float"), ("float", "int")][k]
        return [op, draw(ir_expr(lt, depth - 1)), draw(ir_expr(rt, depth - 1))]
    # bool
    if depth >= 1 and draw(st.integers(0, 5)) == 0:
        # short-circuit evaluation used as a bounds guard: the right operand reads t->dimensions[x] (4 cells) and must
        # not be evaluated when the guard decides the result (comparisons are on ints: the LLVM back end has no fcmp).
        # The C driver keeps dimensions in an exactly sized array (ASan) and the LLVM worker puts it right in front
        # of an inaccessible page, so an eager evaluation is a crash, not a silent read.
        x = ["Max", ["var", draw(st.sampled_from(INTV))], ["int", 0]] if draw(st.booleans()) else \
            ["Max", ["Subtract", ["var", draw(st.sampled_from(INTV))], ["int", draw(st.integers(0, 2))]], ["int", 0]]
        cmp_ = draw(st.sampled_from(["Equal", "NotEqual", "LessThan", "GreaterThan", "LessThanOrEqual", "GreaterThanOrEqual"]))
        read = [cmp_, ["didx", x], draw(ir_expr("int", 0))]
        if draw(st.booleans()):
            return ["And", ["LessThan", x, ["int", 4]], read]
        return ["Or", ["GreaterThanOrEqual", x, ["int", 4]], read]
    if depth == 0:
        if draw(st.booleans()):
            return ["bool", draw(st.booleans())]
        return ["LessThan", ["var", draw(st.sampled_from(INTV))], ["var", draw(st.sampled_from(INTV))]]
    if draw(st.booleans()):
        op = draw(st.sampled_from(["Equal", "NotEqual", "LessThan", "GreaterThan", "LessThanOrEqual", "GreaterThanOrEqual"]))
        return [op, draw(ir_expr("int", depth - 1)), draw(ir_expr("int", depth - 1))]
    return [draw(st.sampled_from(["And", "Or"])), draw(ir_expr("bool", depth - 1)), draw(ir_expr("bool", depth - 1))]


def flip_zero_literals(e):
    if e[0] == "flt" and e[1] == 0.0:
        import math

        return ["flt", -0.0 if math.copysign(1.0, e[1]) > 0 else 0.0]
    return [e[0]] + [flip_zero_literals(c) if isinstance(c, list) else c for c in e[1:]]


@st.composite
def ir_programs(draw, tier):
    """A program = list of slots; each slot is a statement pattern writing t->vals[4+k]."""
    n = draw(st.integers(4, 10))
    slots = []
    for _k in range(n):
        ty = draw(st.sampled_from(["int", "float", "float", "bool"]))
        d = draw(st.integers(1, 4 if tier == "thorough" else 3))
        pat = draw(st.sampled_from(["expr", "expr", "expr", "compound", "branch", "loop"]))
        slot = {"ty": ty, "pat": pat, "e": draw(ir_expr(ty, d))}
        if pat == "compound":
            if ty == "bool":
                slot["pat"] = "expr"
            else:
                slot["op"] = draw(st.sampled_from(["Add", "Subtract", "Multiply"]))
                slot["init"] = draw(ir_expr(ty, 1))
                slot["one"] = draw(st.booleans()) and ty == "int"
        elif pat == "branch":
            slot["cond"] = draw(ir_expr("bool", 2))
            slot["e2"] = draw(ir_expr(ty, d))
        elif pat == "loop":
            if ty == "bool":
                slot["pat"] = "expr"
            else:
                slot["count"] = draw(st.integers(0, 3))
                slot["op"] = draw(st.sampled_from(["Add", "Subtract", "Multiply"]))
                slot["init"] = draw(ir_expr(ty, 1))
        slots.append(slot)
        if len(slots) < 12 and "0.0" in json.dumps(slot["e"]) and draw(st.integers(0, 2)) == 0:
            # the same statement once more with the sign of every zero literal flipped: the two expressions are equal as
            # Python values (0.0 == -0.0) but not as programs - anything keyed on equality of trees confuses them
            slots.append(dict(slot, e=flip_zero_literals(slot["e"])))
    envs = []
    for _ in range(5):
        envs.append({
            "ints": [draw(st.integers(-3, 6)) if draw(st.integers(0, 5)) else draw(st.sampled_from([-1000, 46340, 100000, -46341])) for _ in INTV],
            "floats": [draw(st.sampled_from([0.0, 1.0, -1.5, 0.1, 3.25, 1e16, 1 / 3, -0.0, 1e-300, 123456.789])) for _ in FLTV],
        })
    return {"slots": slots, "envs": envs}


def to_ir(e):
    from tensora.ir import ast as A

    k = e[0]
    if k == "var":
        return A.Variable(e[1])
    if k == "int":
        return A.IntegerLiteral(e[1])
    if k == "flt":
        return A.FloatLiteral(e[1])
    if k == "bool":
        return A.BooleanLiteral(e[1])
    if k == "b2i":
        return A.BooleanToInteger(to_ir(e[1]))
    if k == "didx":
        return A.Variable("t").attr("dimensions").idx(to_ir(e[1]))
    return getattr(A, k)(to_ir(e[1]), to_ir(e[2]))


def slot_statements(k, slot):
    """IR statements computing slot k into t->vals[4+k]."""
    from tensora.ir import ast as A
    from tensora.ir import types as T

    t = A.Variable("t")
    dest = t.attr("vals").idx(4 + k)
    ty = {"int": T.integer, "float": T.float, "bool": T.boolean}[slot["ty"]]

    def store(e):
        return dest.assign(A.BooleanToInteger(e) if slot["ty"] == "bool" else e)

    pat = slot["pat"]
    if pat == "expr":
        return [store(to_ir(slot["e"]))]
    acc = A.Variable(f"acc{k}")
    if pat == "compound":
        rhs = A.IntegerLiteral(1) if slot["one"] else to_ir(slot["e"])
        return [acc.declare(ty).assign(to_ir(slot["init"])),
                A.Assignment(acc, getattr(A, slot["op"])(acc, rhs)), store(acc)]
    if pat == "branch":
        return [acc.declare(ty),
                A.Branch(to_ir(slot["cond"]), A.Block([acc.assign(to_ir(slot["e"]))]), A.Block([acc.assign(to_ir(slot["e2"]))])),
                store(acc)]
    cnt = A.Variable(f"cnt{k}")
    return [acc.declare(ty).assign(to_ir(slot["init"])), cnt.declare(T.integer).assign(0),
            A.Loop(A.LessThan(cnt, A.IntegerLiteral(slot["count"])),
                   A.Block([A.Assignment(acc, getattr(A, slot["op"])(acc, to_ir(slot["e"]))), cnt.increment()])),
            store(acc)]


def program_function(prog, only=None):
    from tensora.ir import ast as A
    from tensora.ir import types as T

    t = A.Variable("t")
    body = []
    for k, nm in enumerate(INTV):
        body.append(A.Variable(nm).declare(T.integer).assign(t.attr("dimensions").idx(k)))
    for k, nm in enumerate(FLTV):
        body.append(A.Variable(nm).declare(T.float).assign(t.attr("vals").idx(k)))
    for k, slot in enumerate(prog["slots"]):
        if only is None or k == only:
            body.extend(slot_statements(k, slot))
    body.append(A.Return(A.IntegerLiteral(0)))
    return A.FunctionDefinition(A.Variable("evaluate"), [A.Declaration(t, T.Pointer(T.tensor))], T.integer, A.Block(body))


def run_program_machine(fn, env, nslots, scoping="c"):
    m = Machine(budget=200000)
    st_ = TensorStruct("t", writable=False)
    st_.fields["dimensions"] = Ptr(m.new_block("int", 4, "input", "t.dimensions", list(env["ints"])))
    st_.fields["vals"] = Ptr(m.new_block("float", 4 + nslots, "struct", "t.vals", list(env["floats"]) + [0.0] * nslots))
    Interp(m, output_name="t", scoping=scoping).run(fn, [st_])
    return [bits(v) for v in st_.fields["vals"].block.tolist()]


def program_case_c(n, prog, fn):
    """C source for one program: kernel + driver running all environments."""
    from tensora.ir import ast as A

    from ..native.cbatch import kernel_c

    src = kernel_c(A.Module([fn]), f"k{n}") + "\n\n"
    nslots = len(prog["slots"])
    body = ""
    for j, env in enumerate(prog["envs"]):
        ints = ", ".join(str(v) for v in env["ints"])
        fl = ", ".join(f"0x{bits(v):016x}ULL" for v in list(env["floats"]) + [0.0] * nslots)
        body += (
            f"  {{ int32_t dims[4] = {{{ints}}}; uint64_t raw[] = {{{fl}}}; double* vals = malloc(sizeof(raw)); memcpy(vals, raw, sizeof(raw));\n"
            f"    taco_tensor_t t; memset(&t, 0, sizeof(t)); t.order = 4; t.dimensions = dims; t.vals = vals;\n"
            f'    printf("RC env{j} %d\\n", k{n}_evaluate(&t));\n'
            f'    printf("OUT env{j} vals :"); for (int q = 0; q < {4 + nslots}; q++) {{ uint64_t u; memcpy(&u, &vals[q], 8); printf(" %016llx", (unsigned long long)u); }} printf("\\n");\n'
            f'    printf("OUT env{j} DONE\\n"); free(vals); }}\n'
        )
    return src + f"static void case_{n}(void) {{\n{body}}}\n\n"


def classes_of(e, acc, right_nested):
    if e[0] in ("var", "int", "flt", "bool"):
        return
    acc.add(e[0])
    if e[0] in ("Add", "Subtract", "Multiply") and e[2][0] in ("Add", "Subtract", "Multiply"):
        right_nested.append(1)
    for sub in e[1:]:
        if isinstance(sub, list):
            classes_of(sub, acc, right_nested)


def program_shard(task):
    tier, seed, shard, n_cases, sanitize, cc = task
    progs = generate_cases(ir_programs(tier), n_cases, seed * 9001 + shard)
    stats = Stats()
    worker = Worker(module="harness.native.worker2")
    try:
        for i in range(0, len(progs), BATCH):
            process_program_batch(progs[i : i + BATCH], stats, worker, sanitize, cc)
    finally:
        worker.close()
    return stats


SAFE_ENV = {"ints": [1, -2, 3, 0], "floats": [0.5, -1.5, 3.25, 0.1]}


def screen_envs(prog):
    """Replace environments in which some slot traps on the machine (int32 overflow = UB in C) by a safe
    one, so the C run is never aborted by undefined behaviour of the *original* program."""
    nslots = len(prog["slots"])
    envs = []
    replaced = 0
    fails = []
    for env in prog["envs"]:
        ok = True
        for k in range(nslots):
            f1 = program_function(prog, only=k)
            try:
                run_program_machine(f1, env, nslots)
            except Trap:
                ok = False
                break
            try:
                # the program as a C compiler parses the printed text (F-K defect model): re-association can
                # turn double arithmetic into int32 arithmetic that overflows (undefined behaviour in C)
                run_program_machine(c_reassociate_function(f1), env, nslots)
            except Trap as t:
                ok = False
                fails.append(fail("c-reassociates-float-expression",
                                  f"slot {k} {prog['slots'][k]} env {env}: printed C re-associates into {t.kind}",
                                  reassociation=True))
                break
        if ok:
            envs.append(env)
        else:
            replaced += 1
            envs.append(dict(SAFE_ENV))
    return dict(prog, envs=envs), replaced, fails


def check_programs(progs, worker, sanitize=True, cc="clang-14"):
    """-> list of (prog, result) ; shared by the stream and by replay."""
    from tensora.ir import ast as A

    out = []
    batch = Batch(sanitize=sanitize, cc=cc)
    zs = cc.startswith("clang")
    fns = []
    screened = []
    for prog in progs:
        screened.append(screen_envs(prog))
    progs = [p for p, _n, _f in screened]
    for n, prog in enumerate(progs):
        fn = program_function(prog)
        fns.append(fn)
        batch.add_raw(n, program_case_c(n, prog, fn))
    rejected, cres = batch.build_and_run_isolating()
    cerr = None
    for n, prog in enumerate(progs):
        fn = fns[n]
        nslots = len(prog["slots"])
        fails = list(screened[n][2])
        from tensora.codegen import ir_to_c

        text = ir_to_c(A.Module([fn]))
        d = f"program {jhash(text)}"
        if n in rejected:
            fails.append(fail("c-does-not-compile", f"{d}: {rejected[n][-400:]}\n{text[-600:]}"))
            cr = None
        else:
            cr = cres.get(n)
            if cr is None or cr["status"] != "exit 0":
                # UB in the original (machine traps) is excluded below; here we only know the whole run died
                cr_dead = cr
                cr = None
            else:
                cr_dead = None
        rep = worker.call({"op": "llvm_program", "module": pickle.dumps(A.Module([fn])).hex(),
                           "envs": [dict(e, slots=nslots) for e in prog["envs"]]})
        if "crash" in rep:
            fails.append(fail("llvm-crash", f"{d}: {rep['crash']}"))
            rep = None
        elif "error" in rep:
            raise bridge.HarnessError(rep["error"] + rep.get("trace", ""))
        elif "llvm_compile_error" in rep:
            fails.append(fail("llvm-module-rejected", f"{d}: {rep['llvm_compile_error']}\n{text[-600:]}"))
            rep = None
        comparisons = 0
        any_trap = False
        rfn = c_reassociate_function(fn)
        for j, env in enumerate(prog["envs"]):
            # machine per slot so a trap in one slot does not hide the others
            mvals = {}
            rvals = {}
            for k in range(nslots):
                try:
                    mvals[k] = run_program_machine(program_function(prog, only=k), env, nslots)[4 + k]
                except Trap:
                    any_trap = True
                    mvals[k] = None
                try:
                    rvals[k] = run_program_machine(c_reassociate_function(program_function(prog, only=k)), env, nslots)[4 + k]
                except Trap:
                    rvals[k] = None
            safe = all(v is not None for v in mvals.values())
            if cr is not None and safe:
                o = cr["out"].get(f"env{j}")
                cv = o["vals"] if o and o["done"] else None
                if cv is None:
                    fails.append(fail("c-runtime:no-output", f"{d} env{j}"))
                else:
                    for k in range(nslots):
                        comparisons += 1
                        zi = (lambda v: 0 if v == NEG_ZERO else v) if not zs else (lambda v: v)
                        if zi(cv[4 + k]) != zi(mvals[k]):
                            if rvals[k] is not None and zi(cv[4 + k]) == zi(rvals[k]):
                                fails.append(fail("c-reassociates-float-expression",
                                                  f"{d} env{j} slot {k}: C {cv[4 + k]:016x} IR {mvals[k]:016x}", reassociation=True))
                            else:
                                fails.append(fail("c-differs-from-ir", f"{d} env{j} slot {k} {prog['slots'][k]}: C {cv[4 + k]:016x} IR {mvals[k]:016x} env {env}"))
            elif cr is None and cerr is None and safe and cr_dead is not None and j == 0 and not any_trap:
                fails.append(fail(f"c-runtime:{cr_dead['status']}", f"{d}: {' | '.join(cr_dead['log'][:3])}"))
            if rep is not None:
                lv = [bits(v) for v in rep["outs"][j]["vals"]]
                for k in range(nslots):
                    if mvals[k] is None:
                        continue
                    comparisons += 1
                    if lv[4 + k] != mvals[k]:
                        fails.append(fail("llvm-differs-from-ir", f"{d} env{j} slot {k} {prog['slots'][k]}: LLVM {lv[4 + k]:016x} IR {mvals[k]:016x} env {env}"))
        ops = set()
        rn = []
        for s in prog["slots"]:
            for key in ("e", "e2", "init", "cond"):
                if key in s:
                    classes_of(s[key], ops, rn)
        labels = {f"pat:{s['pat']}" for s in prog["slots"]} | {f"ty:{s['ty']}" for s in prog["slots"]}
        if rn:
            labels.add("right_nested_arith")
        if screened[n][1]:
            labels.add("env_replaced_because_original_traps")
        # keep one fail per bucket
        seen = set()
        uniq = []
        for f in fails:
            if f["bucket"] not in seen:
                seen.add(f["bucket"])
                uniq.append(f)
        nontrivial = len(ops) >= 2 and bool(rn)
        sample = {"c_text_tail": text[-700:], "envs": prog["envs"][:1]}
        out.append((prog, result(uniq, labels, nontrivial, jhash(text), sample, {"comparisons": comparisons, "programs": 1})))
    return out


def process_program_batch(progs, stats, worker, sanitize=True, cc="clang-14"):
    for prog, res in check_programs(progs, worker, sanitize, cc):
        stats.add(prog, res)


# ------------------------------------------------------------------------------- driver
def replay(payload):
    w = Worker(module="harness.native.worker2")
    try:
        st_ = Stats()
        if payload.get("kind") == "program":
            return check_programs([payload["case"]], w)[0][1]["fails"]
        process_kernel_batch([payload["case"]], st_, w)
        out = []
        for b, v in st_.buckets.items():
            for ex in v["examples"]:
                out.append({"bucket": b, "detail": ex[1], "info": ex[2]})
        return out
    finally:
        w.close()


def run(chk):
    quick = chk.tier == "quick"
    nk = 192 if quick else 6000
    npg = 320 if quick else 20000
    shards = 16
    ks = run_tasks(kernel_shard, [(chk.tier, chk.seed, s, nk // shards, True, "clang-14") for s in range(shards)])
    chk.absorb(ks, kind="case")
    ps = run_tasks(program_shard, [(chk.tier, chk.seed, s, npg // shards, True, "clang-14") for s in range(shards)])
    chk.absorb(ps, kind="program")
    if not quick:
        # gcc as a second compiler: plain -O2 and ASan+UBSan -O1 (sign of zero ignored, see same())
        ks2 = run_tasks(kernel_shard, [(chk.tier, chk.seed + 1, s, 3000 // shards, sn, "gcc") for s in range(shards) for sn in (False, True)])
        chk.absorb(ks2, kind="case")
        ps2 = run_tasks(program_shard, [(chk.tier, chk.seed + 1, s, 5000 // shards, sn, "gcc") for s in range(shards) for sn in (False, True)])
        chk.absorb(ps2, kind="program")
    chk.coverage_extra["programs"] = int(chk.stats.counters.get("programs", 0))
    chk.coverage_extra["disagreements_checked"] = int(chk.stats.counters.get("comparisons", 0))
