"""C11 - tensor operators agree with element-wise and matrix arithmetic."""
from __future__ import annotations

import itertools
from fractions import Fraction

from hypothesis import strategies as st

from .. import bridge
from .. import cases as C
from .. import gen, templates
from ..native.pool import Worker
from ..runner import Stats, fail, generate_cases, jhash, result, run_tasks

PROP = "C11"
LEVEL = "exploration"
RULE = (
    "(1) enumeration: every ordered pair of operand formats of equal order 0-2 (order 3: every pair in thorough, a "
    "deterministic sample in quick) x {+,-,*} on two deterministic sparsity patterns, every format of order 0-3 x "
    "scalar (int/float/bool) on either side, every format pair of orders (1,1),(2,1),(1,2),(2,2) for @; "
    "(2) Hypothesis: random formats/dimensions/patterns incl. unequal dimensions, wrong orders for @, zero-sized "
    "dimensions. Executed natively (the operators call evaluate) in a disposable worker; results decoded from raw "
    "arrays. Oracle: exact-rational element-wise / matrix reference with the right dimensions; ValueError iff the "
    "shapes are incompatible by the documented table (both directions); NoKernelFoundError is allowed; for natural "
    "orderings the result format follows the documented rule. The operators' kernels are generated at initial array "
    "capacities 1, 2, 3 and the default (rotating by task), with their allocations routed through a guarded allocator "
    "whose zones behind every block must be intact while the result is alive. non-trivial = both operands have a stored non-zero "
    "AND at least one compressed level; distinct by (formats, dims, op, data hash)."
)
ASSUMPTIONS = [
    "values are small dyadic rationals, so floating-point results must equal the rational reference exactly",
    "operators run natively after F-C was repaired; a crashed worker is reported as a failure of the call it ran",
]

BATCH = 40


def pattern(dims, k):
    """Deterministic sparse pattern k for the enumeration part."""
    d = {}
    for c in itertools.product(*[range(x) for x in dims]):
        h = (sum((q + 1) * v for q, v in enumerate(c)) * 7 + 3 * k + len(dims)) % 5
        if h in (0, 2) or (k == 1 and h == 4):
            d[c] = float(((sum(c) + k) % 5) - 2) / 2 or 1.5
    return d


def tensor_spec(dims, fmt, dok):
    modes, ordering = C.fmt_parts(fmt)
    levels, vals = C.levels_from_dok(dok, tuple(dims), modes, ordering)
    return {"tensor": {"dims": list(dims), "fmt": fmt, "stored": {"levels": levels, "vals": vals}}, "dok": dok}


def scalar_spec(v, ty):
    return {"scalar": v, "type": ty}


def expected(call):
    """-> ('value', dims, {coord: Fraction}, format_rule or None) | ('ValueError',) | ('TypeError',)"""
    op = call["op"]
    L, R = call["left"], call["right"]
    lt, rt = "tensor" in L, "tensor" in R
    fr = lambda d: {tuple(c): Fraction(v) for c, v in d.items()}  # noqa: E731
    apply = {"+": lambda a, b: a + b, "-": lambda a, b: a - b, "*": lambda a, b: a * b}
    if op == "@":
        if not (lt and rt):
            return ("TypeError",)
        ld, rd = tuple(L["tensor"]["dims"]), tuple(R["tensor"]["dims"])
        lo, ro = len(ld), len(rd)
        if (lo, ro) not in ((1, 1), (2, 1), (1, 2), (2, 2)):
            return ("ValueError",)
        if ld[-1] != rd[0]:
            return ("ValueError",)
        a, b = fr(L["dok"]), fr(R["dok"])
        k = rd[0]
        od = (() if lo == 1 else (ld[0],)) + (() if ro == 1 else (rd[1],))
        out = {}
        for c in itertools.product(*[range(x) for x in od]):
            i = c[0] if lo == 2 else None
            l_ = c[-1] if ro == 2 else None
            s = Fraction(0)
            for j in range(k):
                av = a.get((j,) if lo == 1 else (i, j), 0)
                bv = b.get((j,) if ro == 1 else (j, l_), 0)
                s += av * bv
            out[c] = s
        lm, lord = C.fmt_parts(L["tensor"]["fmt"])
        rm, rord = C.fmt_parts(R["tensor"]["fmt"])
        rule = None
        if lord == tuple(range(lo)) and rord == tuple(range(ro)):
            rule = ("" if lo == 1 else lm[0]) + ("" if ro == 1 else rm[1])
        return ("value", od, out, rule)
    if lt and rt:
        ld, rd = tuple(L["tensor"]["dims"]), tuple(R["tensor"]["dims"])
        if ld != rd:
            return ("ValueError",)
        a, b = fr(L["dok"]), fr(R["dok"])
        out = {c: apply[op](a.get(c, Fraction(0)), b.get(c, Fraction(0))) for c in itertools.product(*[range(x) for x in ld])}
        lm, lord = C.fmt_parts(L["tensor"]["fmt"])
        rm, rord = C.fmt_parts(R["tensor"]["fmt"])
        rule = None
        n = len(ld)
        if lord == tuple(range(n)) and rord == tuple(range(n)):
            if op == "*":
                rule = "".join("d" if (x == "d" and y == "d") else "s" for x, y in zip(lm, rm))
            else:
                rule = "".join("d" if (x == "d" or y == "d") else "s" for x, y in zip(lm, rm))
        return ("value", ld, out, rule)
    if lt or rt:
        T, S = (L, R) if lt else (R, L)
        dims = tuple(T["tensor"]["dims"])
        a = fr(T["dok"])
        sv = Fraction(S["scalar"]) if S["type"] != "bool" else Fraction(int(S["scalar"]))
        out = {}
        for c in itertools.product(*[range(x) for x in dims]):
            av = a.get(c, Fraction(0))
            out[c] = apply[op](av, sv) if lt else apply[op](sv, av)
        tm, tord = C.fmt_parts(T["tensor"]["fmt"])
        rule = None
        if tord == tuple(range(len(dims))):
            rule = "".join(tm) if op == "*" else "d" * len(dims)
        return ("value", dims, out, rule)
    return ("TypeError",)


def describe(call):
    def one(s):
        if "tensor" in s:
            return f"T[{s['tensor']['fmt'] or 'scalar'}]{tuple(s['tensor']['dims'])}"
        return f"{s['type']}({s['scalar']})"

    return f"{one(call['left'])} {call['op']} {one(call['right'])}" + (f" [initial capacity {call['capacity']}]" if call.get("capacity") else "")


def judge(call, rep):
    d = describe(call)
    exp = expected(call)
    if "error" in rep:
        raise bridge.HarnessError(f"{d}: {rep['error']}")
    labels = {f"op:{call['op']}", f"expect:{exp[0]}"}
    if "raised" in rep:
        name = rep["raised"]
        labels.add(f"raised:{name}")
        if name == "NoKernelFoundError" and exp[0] == "value":
            return [], labels
        if exp[0] == name:
            return [], labels
        if exp[0] == "value":
            return [fail(f"operator-raises:{name}", f"{d}: {rep['message']}")], labels
        return [fail(f"wrong-exception:{name}-instead-of-{exp[0]}", f"{d}: {rep['message']}")], labels
    if exp[0] != "value":
        return [fail(f"incompatible-shapes-accepted:{call['op']}", f"{d}: returned a tensor, expected {exp[0]}")], labels
    raw = rep["raw"]
    _k, dims, vals, rule = exp
    if rep.get("guard_zones_overwritten"):
        return [fail("operator-writes-past-allocation", f"{d}: {rep['guard_zones_overwritten']} guard zone(s) behind arrays the "
                     "operator's kernel allocated were overwritten")], labels
    if "guard_zones_overwritten" in rep:
        labels.add("guarded_allocator")
    if raw["problem"]:
        return [fail("result-unreadable", f"{d}: {raw['problem']}")], labels
    if tuple(raw["dims"]) != tuple(dims):
        return [fail("result-dimensions", f"{d}: {raw['dims']} expected {dims}")], labels
    errs = C.validate_arrays(raw["dims"], raw["ordering"], raw["modes"], raw["levels"], len(raw["vals"]))
    if errs:
        return [fail(f"result-invalid:{errs[0][0]}", f"{d}: {errs}")], labels
    stored = C.stored_coords(raw["levels"], raw["vals"], raw["dims"], raw["ordering"])
    bad = [(c, stored.get(c, 0.0), float(v)) for c, v in vals.items() if Fraction(stored.get(c, 0.0)) != v]
    fails = []
    if bad:
        fails.append(fail(f"wrong-value:{call['op']}", f"{d}: (coord, got, expected) {bad[:3]}"))
    if rule is not None:
        labels.add("format_rule_checked")
        got = C.fmt_text(tuple(raw["modes"]), tuple(raw["ordering"]))
        if got != rule:
            fails.append(fail(f"result-format:{call['op']}", f"{d}: format {got!r}, documented rule gives {rule!r}"))
    labels.add("value_ok")
    return fails, labels


def nontrivial(call):
    specs = [s for s in (call["left"], call["right"]) if "tensor" in s]
    if not specs:
        return False
    if not all(any(v != 0 for v in s["dok"].values()) for s in specs):
        return False
    return any("s" in s["tensor"]["fmt"] for s in specs)


def wire(call):
    strip = lambda s: {k: v for k, v in s.items() if k != "dok"}  # noqa: E731
    return {"op": call["op"], "left": strip(call["left"]), "right": strip(call["right"])}


def run_calls(calls, stats, worker, capacity=None):
    """capacity: initial capacity of the arrays the operator's kernel appends to (None = tensora's default of 2^20);
    at 1 or 2 the growth paths run on these small operands.  Kernel allocations go through the guarded allocator."""
    for c in calls:
        c["capacity"] = capacity
    for i in range(0, len(calls), BATCH):
        chunk = calls[i : i + BATCH]
        rep = worker.call({"op": "operators", "calls": [wire(c) for c in chunk], "capacity": capacity, "guard": True}, timeout=300)
        if "crash" in rep:
            # find the culprit one by one
            for c in chunk:
                r1 = worker.call({"op": "operators", "calls": [wire(c)], "capacity": capacity, "guard": True}, timeout=120)
                if "crash" in r1:
                    stats.add(storable(c), result([fail("operator-crashes-process", f"{describe(c)}: {r1['crash']}")],
                                                  {f"op:{c['op']}"}, nontrivial(c), jhash(storable(c)), sample(c)))
                else:
                    record(c, r1["results"][0], stats)
            continue
        if "error" in rep:
            raise bridge.HarnessError(rep["error"] + rep.get("trace", ""))
        for c, r in zip(chunk, rep["results"]):
            record(c, r, stats)


def storable(call):
    """JSON-able form of a call (dok keys become lists)."""
    def one(s):
        if "tensor" in s:
            return {"tensor": s["tensor"], "dok": [[list(c), v] for c, v in sorted(s["dok"].items())]}
        return dict(s)

    return {"op": call["op"], "left": one(call["left"]), "right": one(call["right"]), "capacity": call.get("capacity")}


def unstore(call):
    def one(s):
        if "tensor" in s:
            return {"tensor": s["tensor"], "dok": {tuple(c): v for c, v in s["dok"]}}
        return dict(s)

    return {"op": call["op"], "left": one(call["left"]), "right": one(call["right"]), "capacity": call.get("capacity")}


def sample(call):
    return {"call": describe(call)}


def record(call, rep, stats):
    fails, labels = judge(call, rep)
    stats.add(storable(call), result(fails, labels, nontrivial(call), jhash(storable(call)), sample(call)))


# ------------------------------------------------------------------------- enumeration
DIMS = {0: (), 1: (3,), 2: (2, 3), 3: (2, 3, 2)}


def enum_task(task):
    kind, payload = task
    stats = Stats()
    worker = Worker(module="harness.native.worker2")
    calls = []
    cap = None
    try:
        if kind == "pairs":
            order, pairs = payload
            dims = DIMS[order]
            for fa, fb in pairs:
                for op in "+-*":
                    calls.append({"op": op, "left": tensor_spec(dims, fa, pattern(dims, 0)),
                                  "right": tensor_spec(dims, fb, pattern(dims, 1))})
            cap = 2
        elif kind == "scalars":
            for order, fa in payload:
                dims = DIMS[order]
                for op in "+-*":
                    for k, (v, ty) in enumerate([(2, "int"), (0.5, "float"), (True, "bool"), (0, "int")]):
                        t = tensor_spec(dims, fa, pattern(dims, k % 2))
                        calls.append({"op": op, "left": t, "right": scalar_spec(v, ty)})
                        calls.append({"op": op, "left": scalar_spec(v, ty), "right": t})
        elif kind == "matmul":
            for (oa, ob), pairs in payload:
                da = (3,) if oa == 1 else (2, 3)
                db = (3,) if ob == 1 else (3, 2)
                for fa, fb in pairs:
                    calls.append({"op": "@", "left": tensor_spec(da, fa, pattern(da, 0)),
                                  "right": tensor_spec(db, fb, pattern(db, 1))})
            cap = 1
        run_calls(calls, stats, worker, cap)
        stats.counters[f"calls_at_initial_capacity_{cap or 'default'}"] += len(calls)
    finally:
        worker.close()
    return stats


# -------------------------------------------------------------------------- Hypothesis
@st.composite
def random_calls(draw, tier):
    op = draw(st.sampled_from(["+", "-", "*", "@", "@"]))

    def tensor(order, dims=None):
        modes = tuple(draw(st.sampled_from("ds")) for _ in range(order))
        ordering = tuple(draw(st.permutations(range(order)))) if order else ()
        dims = dims if dims is not None else tuple(draw(st.sampled_from([0, 1, 2, 2, 3, 3, 4])) for _ in range(order))
        fmt = C.fmt_text(modes, ordering)
        dok = {}
        for c in itertools.product(*[range(x) for x in dims]):
            if draw(st.integers(0, 2)):
                dok[c] = draw(st.integers(-6, 6)) / 2
        return tensor_spec(dims, fmt, dok)

    if op == "@":
        oa = draw(st.sampled_from([1, 2, 1, 2, 0, 3]))
        ob = draw(st.sampled_from([1, 2, 2, 1, 1, 2]))
        a = tensor(oa)
        inner = a["tensor"]["dims"][-1] if oa else 2
        if draw(st.integers(0, 4)) == 0:
            inner = inner + 1  # incompatible
        db = tuple([inner] + [draw(st.sampled_from([1, 2, 3])) for _ in range(ob - 1)]) if ob else ()
        return {"op": op, "left": a, "right": tensor(ob, db)}
    shape = draw(st.sampled_from(["tt", "tt", "tt", "ts", "st", "tt_unequal", "tt_order"]))
    order = draw(st.sampled_from([0, 1, 2, 2, 3]))
    if shape in ("ts", "st"):
        v, ty = draw(st.sampled_from([(2, "int"), (-1, "int"), (0.5, "float"), (True, "bool"), (False, "bool"),
                                     (0, "int"), (-1.5, "float")]))
        t = tensor(order)
        return {"op": op, "left": t, "right": scalar_spec(v, ty)} if shape == "ts" else {
            "op": op, "left": scalar_spec(v, ty), "right": t}
    a = tensor(order)
    dims = tuple(a["tensor"]["dims"])
    if shape == "tt_unequal" and order:
        k = draw(st.integers(0, order - 1))
        dims = tuple(d + 1 if q == k else d for q, d in enumerate(dims))
    if shape == "tt_order":
        return {"op": op, "left": a, "right": tensor(order + 1 if order < 3 else order - 1)}
    return {"op": op, "left": a, "right": tensor(order, dims)}


def random_task(task):
    tier, seed, shard, n = task
    stats = Stats()
    worker = Worker(module="harness.native.worker2")
    try:
        cap = [1, 2, None, 3][shard % 4]
        cs = generate_cases(random_calls(tier), n, seed * 3001 + shard)
        run_calls(cs, stats, worker, cap)
        stats.counters[f"calls_at_initial_capacity_{cap or 'default'}"] += len(cs)
    finally:
        worker.close()
    return stats


def _dispatch(task):
    return random_task(task[1]) if task[0] == "random" else enum_task(task)


def replay(payload):
    call = unstore(payload["case"])
    st_ = Stats()
    w = Worker(module="harness.native.worker2")
    try:
        run_calls([call], st_, w, call.get("capacity"))
    finally:
        w.close()
    return [{"bucket": b, "detail": ex[1], "info": ex[2]} for b, v in st_.buckets.items() for ex in v["examples"]]


def chunks(xs, n):
    for i in range(0, len(xs), n):
        yield xs[i : i + n]


def run(chk):
    bridge.ensure_tensora()
    quick = chk.tier == "quick"
    tasks = []
    for order in (0, 1, 2):
        fl = list(templates.all_formats(order))
        for ch in chunks([(a, b) for a in fl for b in fl], 24):
            tasks.append(("pairs", (order, ch)))
    f3 = list(templates.all_formats(3))
    pairs3 = [(a, b) for a in f3 for b in f3]
    if quick:
        step = 19
        pairs3 = pairs3[chk.seed % step :: step]
    for ch in chunks(pairs3, 24):
        tasks.append(("pairs", (3, ch)))
    allf = [(o, f) for o in range(4) for f in templates.all_formats(o)]
    for ch in chunks(allf, 6):
        tasks.append(("scalars", ch))
    for oa, ob in ((1, 1), (2, 1), (1, 2), (2, 2)):
        pl = [(a, b) for a in templates.all_formats(oa) for b in templates.all_formats(ob)]
        for ch in chunks(pl, 16):
            tasks.append(("matmul", [((oa, ob), ch)]))
    n_random = 800 if quick else 30000
    for s in range(16):
        tasks.append(("random", (chk.tier, chk.seed, s, n_random // 16)))
    chk.absorb(run_tasks(_dispatch, tasks), kind="operator-call")
    chk.coverage_extra["exhaustive_subdomain"] = (
        "all ordered format pairs of order 0-2 for + - *, all formats of order 0-3 with scalars on either side, all "
        "format pairs for @" + ("" if quick else ", all ordered format pairs of order 3")
    )
