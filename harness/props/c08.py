"""C08 - kernel generation is total: code, or one of the documented refusals."""
from __future__ import annotations

import keyword
import os
import re
import shutil
import signal
import subprocess
import tempfile

from hypothesis import strategies as st

from .. import bridge
from .. import cases as C
from .. import exprs as X
from .. import gen, templates
from ..native import cbatch
from ..runner import Stats, fail, jhash, result, run_stream, run_tasks

PROP = "C08"
LEVEL = "exploration"
RULE = (
    "(1) bounded-exhaustive sweep: hand-listed assignment templates x every format assignment ({d,s}^n x S_n "
    "per tensor; deterministic stride sample above 4096 per template) x rotating kernel-kind subsets x {c, "
    "llvm}; (2) Hypothesis-generated assignments incl. diagonal accesses, broadcast targets and arbitrary legal "
    "identifier spellings; (3) identifiers drawn from reserved words (C/Python keywords, libc and stdbool "
    "names). Oracle: generate_code returns Success(str) or Failure(DiagonalAccessError|NoKernelFoundError) and "
    "raises nothing within a 60 s alarm; TensorMethod additionally may raise BroadcastTargetIndexError; the CLI "
    "(typer CliRunner) exits 0 with stdout == library text or 1 with a message and no traceback; accepted C "
    "passes gcc -fsyntax-only -std=c11 with the strict -Werror set under the published preamble, accepted LLVM "
    "passes llvmlite parse_assembly + verify. non-trivial = distinct (assignment, formats) with >=1 compressed "
    "level; 'exhaustive_templates' lists templates whose format space was enumerated completely."
)
ASSUMPTIONS = [
    "bounded domain: at most 6 tensor occurrences per assignment (the merge lattice is exponential in co-iterated "
    "sparse operands; F-L is listed with its witness)",
    "the C preamble used for acceptance is taco_define_header + taco_type_header from the repository plus "
    "<stdint.h> and <stdlib.h>",
]

DOCUMENTED = {"DiagonalAccessError", "NoKernelFoundError"}
KIND_SUBSETS = [["evaluate"], ["compute"], ["assemble"], ["assemble", "compute"], ["evaluate", "compute"],
                ["evaluate", "assemble"], ["evaluate", "assemble", "compute"], ["compute", "evaluate"]]

C_KEYWORDS = """auto break case char const continue default do double else enum extern float for goto if inline int
long register restrict return short signed sizeof static struct switch typedef union unsigned void volatile while
bool true false NULL EOF BUFSIZ stdin stdout stderr malloc realloc free""".split()
RESERVED = sorted(set(C_KEYWORDS) | {k for k in keyword.kwlist if re.fullmatch(r"[A-Za-z][A-Za-z0-9]*", k)})


class Hang(Exception):
    pass


def _alarm(_sig, _frm):
    raise Hang()


def guarded(fn, seconds=60, extra_memory=3 << 30):
    """Run fn under an alarm and under an address-space limit of 'what the process has now + 3 GiB', so that a search
    that eats memory raises MemoryError (an internal error like any other) instead of getting the process killed."""
    import resource

    old = signal.signal(signal.SIGALRM, _alarm)
    soft, hard = resource.getrlimit(resource.RLIMIT_AS)
    try:
        with open("/proc/self/statm") as fh:
            now = int(fh.read().split()[0]) * resource.getpagesize()
        limit = now + extra_memory
        if hard != resource.RLIM_INFINITY:
            limit = min(limit, hard)
        resource.setrlimit(resource.RLIMIT_AS, (limit, hard))
    except (OSError, ValueError):
        pass
    signal.alarm(seconds)
    try:
        return fn()
    finally:
        signal.alarm(0)
        signal.signal(signal.SIGALRM, old)
        try:
            resource.setrlimit(resource.RLIMIT_AS, (soft, hard))
        except (OSError, ValueError):
            pass


def uses_reserved(case):
    names = set(case["formats"]) | set(case.get("indexes", []))
    return sorted(n for n in names if n in RESERVED)


def check_problem(case, do_cli=False, do_tensor_method=False, collect_code=None):
    """case: {assignment, formats{name: fmt}, kinds, language, indexes}.  -> (fails, info)"""
    bridge.ensure_tensora()
    from returns.result import Failure
    from tensora.expression import parse_assignment
    from tensora.format import parse_format
    from tensora.generate import Language, generate_code
    from tensora.kernel_type import KernelType
    from tensora.problem import make_problem

    d = f"{case['assignment']} {case['formats']} {case['kinds']} {case['language']}"
    info = {"status": None, "reserved": uses_reserved(case)}
    extra = {"reserved": info["reserved"]}
    try:
        pa = parse_assignment(case["assignment"])
    except Exception as e:  # noqa: BLE001 - a syntactically valid assignment must parse (C12 looks at the parser itself)
        info["status"] = "exception"
        return [fail(f"internal-error:{type(e).__name__}@{bridge.innermost_frame(e)}", f"{d}: parse_assignment raised: {str(e)[:200]}", **extra)], info
    if isinstance(pa, Failure):
        info["status"] = "parse-failure"
        return [fail("valid-assignment-rejected-by-parser", f"{d}: {pa.failure()}", **extra)], info
    fm = {n: parse_format(f).unwrap() for n, f in case["formats"].items()}
    pr = make_problem(pa.unwrap(), fm)
    if isinstance(pr, Failure):
        info["status"] = "problem-failure"
        return [fail("valid-problem-rejected", f"{d}: {pr.failure()}", **extra)], info
    problem = pr.unwrap()
    kinds = [KernelType[k] for k in case["kinds"]]
    lang = Language[case["language"]]
    fails = []
    code = None
    try:
        limit = int(case.get("alarm", 60))
        res = guarded(lambda: generate_code(problem, kinds, lang), limit)
    except Hang:
        info["status"] = "hang"
        return [fail("generation-hangs", f"{d}: no result within {limit} s", **extra)], info
    except RecursionError as e:
        info["status"] = "exception"
        return [fail(f"internal-error:RecursionError@{bridge.innermost_frame(e)}", d, **extra)], info
    except Exception as e:  # noqa: BLE001 - the property is exactly 'never raises'
        info["status"] = "exception"
        return [fail(f"internal-error:{type(e).__name__}@{bridge.innermost_frame(e)}", f"{d}: {str(e)[:200]}", **extra)], info
    if isinstance(res, Failure):
        name = type(res.failure()).__name__
        info["status"] = f"refused:{name}"
        if name not in DOCUMENTED:
            fails.append(fail(f"undocumented-refusal:{name}", f"{d}: {res.failure()}", **extra))
    else:
        code = res.unwrap()
        info["status"] = "code"
        if not isinstance(code, str) or not code.strip():
            fails.append(fail("empty-code", d, **extra))
        for k in case["kinds"]:
            if not re.search(rf"\b{k}\b", code):
                fails.append(fail("requested-kernel-missing", f"{d}: {k} not in generated text", **extra))
        if collect_code is not None:
            collect_code.append((case, code))
        elif case["language"] == "llvm":
            fails += llvm_accepts(code, d, extra)
    if do_tensor_method:
        from tensora.compile import BroadcastTargetIndexError, TensorMethod

        try:
            guarded(lambda: TensorMethod(problem))
            tm = "ok"
        except (BroadcastTargetIndexError,) as e:
            tm = type(e).__name__
        except Hang:
            tm = "hang"
            fails.append(fail("tensor-method-hangs", d, **extra))
        except Exception as e:  # noqa: BLE001
            tm = type(e).__name__
            if tm not in DOCUMENTED:
                fails.append(fail(f"tensor-method-internal-error:{tm}@{bridge.innermost_frame(e)}", f"{d}: {str(e)[:200]}", **extra))
        info["tensor_method"] = tm
        if tm == "ok" and info["status"] != "code":
            fails.append(fail("tensor-method-built-but-generate-refused", d, **extra))
    if do_cli:
        fails += cli_check(case, code, info["status"], d, extra)
    return fails, info


def llvm_accepts(code, d, extra):
    import llvmlite.binding as llvm

    try:
        m = llvm.parse_assembly(code)
        m.verify()
    except Exception as e:  # noqa: BLE001
        return [fail("llvm-module-rejected", f"{d}: {str(e)[:300]}", **extra)]
    return []


def cli_check(case, code, status, d, extra):
    from typer.testing import CliRunner

    from tensora.cli import app

    args = [case["assignment"]]
    for n, f in case["formats"].items():
        if set(f) <= {"d"} and case.get("omit_dense", True) and (hash_int(n + case["assignment"]) % 2 == 0):
            continue  # unmentioned tensors are dense
        args += ["-f", f"{n}:{f}"]
    for k in case["kinds"]:
        args += ["-t", k]
    args += ["-l", case["language"]]
    out_dir = None
    use_file = hash_int(case["assignment"] + str(case["formats"])) % 3 == 0
    try:
        if use_file:
            out_dir = tempfile.mkdtemp(prefix="verif_cli_")
            args += ["-o", os.path.join(out_dir, "k.txt")]
        r = CliRunner().invoke(app, args)
        fails = []
        if r.exception is not None and not isinstance(r.exception, SystemExit):
            return [fail(f"cli-traceback:{type(r.exception).__name__}", f"{d}: {r.exception!r}"[:400], **extra)]
        if status == "code":
            if r.exit_code != 0:
                fails.append(fail("cli-exit-nonzero-for-code", f"{d}: exit {r.exit_code} {r.stderr[:200]}", **extra))
            else:
                got = open(os.path.join(out_dir, "k.txt")).read() if use_file else r.stdout
                want = code if use_file else code + "\n"
                if got != want:
                    fails.append(fail("cli-text-differs-from-library", f"{d}: {len(got)} vs {len(want)} chars", **extra))
        else:
            if r.exit_code != 1:
                fails.append(fail("cli-exit-code-for-refusal", f"{d}: exit {r.exit_code}", **extra))
            if not r.stderr.strip():
                fails.append(fail("cli-refusal-without-message", d, **extra))
            if "Traceback" in r.stderr or "Traceback" in r.stdout:
                fails.append(fail("cli-traceback-text", d, **extra))
        return fails
    finally:
        if out_dir:
            shutil.rmtree(out_dir, ignore_errors=True)


def hash_int(s):
    return int(jhash(s), 16)


def c_accepts_batch(items):
    """items: [(case, c_code)] -> list of (case, error) for rejected ones (gcc -fsyntax-only, batched)."""
    if not items:
        return []
    parts = []
    for n, (_case, code) in enumerate(items):
        parts.append(re.sub(r"\b(evaluate|assemble|compute)\(", lambda m: f"k{n}_{m.group(1)}(", code))
    pre = syntax_preamble()
    d = tempfile.mkdtemp(prefix="verif_c08_")
    try:
        src = os.path.join(d, "all.c")
        with open(src, "w") as fh:
            fh.write(pre + "\n\n".join(parts) + "\n")
        cp = subprocess.run(["gcc", *cbatch.STRICT_FLAGS, "-fsyntax-only", src], capture_output=True, text=True)
        if cp.returncode == 0:
            return []
        bad = []
        for (case, _code), part in zip(items, parts):
            with open(src, "w") as fh:
                fh.write(pre + part + "\n")
            c1 = subprocess.run(["gcc", *cbatch.STRICT_FLAGS, "-fsyntax-only", src], capture_output=True, text=True)
            if c1.returncode != 0:
                bad.append((case, c1.stderr[-600:]))
        if not bad:
            raise bridge.HarnessError("C batch rejected although each kernel is accepted alone: " + cp.stderr[-800:])
        return bad
    finally:
        shutil.rmtree(d, ignore_errors=True)


def syntax_preamble():
    from tensora.compile._cffi_ownership import taco_type_header
    from tensora.compile._compile_cffi import taco_define_header

    return "#include <stdint.h>\n#include <stdlib.h>\n" + taco_define_header + taco_type_header


# ----------------------------------------------------------------------- (1) template sweep
def sweep_task(task):
    name, text, fmts_chunk, offset, do_tools = task
    stats = Stats()
    ccode = []
    for k, fm in enumerate(fmts_chunk):
        idx = offset + k
        case = {
            "assignment": text,
            "formats": fm,
            "kinds": KIND_SUBSETS[idx % len(KIND_SUBSETS)],
            "language": "c" if (idx // len(KIND_SUBSETS)) % 2 == 0 else "llvm",
            "template": name,
        }
        collect = ccode if (case["language"] == "c" and do_tools) else None
        fails, info = check_problem(case, do_cli=(idx % 7 == 0), do_tensor_method=(idx % 5 == 0),
                                    collect_code=collect)
        labels = {f"status:{info['status']}", f"template:{name}", f"lang:{case['language']}"}
        nontrivial = any("s" in f for f in fm.values())
        stats.add(case, result(fails, labels, nontrivial, jhash([text, fm]),
                               {"assignment": text, "formats": fm, "kinds": case["kinds"],
                                "language": case["language"], "status": info["status"]},
                               {"cli_runs": int(idx % 7 == 0), "tensor_method_builds": int(idx % 5 == 0)}))
    for case, err in c_accepts_batch(ccode):
        stats.add(case, result([fail("c-code-rejected-by-compiler", f"{case['assignment']} {case['formats']}: {err}",
                                     reserved=uses_reserved(case))], set(), False, None, None))
    stats.counters["c_kernels_syntax_checked"] += len(ccode)
    return stats


# --------------------------------------------------------------------- (2) random assignments
NAME_RE = r"[A-Za-z][A-Za-z0-9]{0,5}"


@st.composite
def random_problems(draw, tier):
    orders = {}
    tree = draw(gen.expr_trees(max_leaves=5, orders=orders, literal_rate=14, big_literals=True, constant_pairs=True))
    used = X.indexes_of(tree)
    kind = draw(st.sampled_from(["plain", "plain", "plain", "diagonal", "broadcast", "renamed", "renamed"]))
    k = draw(st.integers(0, min(len(used), 3)))
    tgt = list(draw(st.permutations(used)))[:k] if used else []
    if kind == "broadcast":
        spare = [i for i in gen.IDX + ["m"] if i not in used]
        tgt = tgt[:2] + [spare[0]]
    if kind == "diagonal":
        ts = [t for t in X.tensors(tree) if len(t[2]) >= 2]
        if ts:
            t = ts[0]
            t[2][1] = t[2][0]
    target = ["o", tgt]
    tmap, imap = {}, {}
    if kind == "renamed":
        names = ["o"] + sorted({t[1] for t in X.tensors(tree)})
        idxs = sorted(set(X.indexes_of(tree)) | set(tgt))
        pool = draw(st.lists(st.from_regex(NAME_RE, fullmatch=True).filter(lambda s: s not in RESERVED),
                             min_size=len(names) + len(idxs), max_size=len(names) + len(idxs), unique=True))
        tmap = dict(zip(names, pool[: len(names)]))
        imap = dict(zip(idxs, pool[len(names):]))
    target = [tmap.get("o", "o"), [imap.get(i, i) for i in tgt]]
    tree = X.rename(tree, tmap, imap)
    fm = {target[0]: draw(gen.formats(len(target[1])))}
    for t in X.tensors(tree):
        if t[1] not in fm:
            fm[t[1]] = draw(gen.formats(len(t[2])))
    return {
        "assignment": X.assignment_text(target, tree),
        "formats": fm,
        "kinds": draw(st.sampled_from(KIND_SUBSETS)),
        "language": draw(st.sampled_from(["c", "llvm"])),
        "shape": kind,
        "indexes": sorted(set(X.indexes_of(tree)) | set(target[1])),
    }


@st.composite
def wide_problems(draw, tier):
    """Products and sums of 3-5 tensors of order 2-3 that share few or no indexes (up to 15 distinct index names),
    nested to the right, to the left or balanced, mostly dense: the space of candidate iteration graphs is astronomically
    large here, so generation only returns if the search for the first legal graph is lazy."""
    n = draw(st.integers(3, 5))
    pool = [f"i{q}" for q in range(15)]
    used = []
    leaves = []
    for q in range(n):
        k = draw(st.sampled_from([2, 3, 3]))
        idxs = []
        for _ in range(k):
            fresh = [i for i in pool if i not in used]
            if used and (not fresh or draw(st.integers(0, 5)) == 0):
                cand = [i for i in used if i not in idxs]
                if not cand:
                    continue
                i = draw(st.sampled_from(cand))
            else:
                i = fresh[0]
                used.append(i)
            idxs.append(i)
        leaves.append(["t", "abcde"[q], idxs])
    op = draw(st.sampled_from("***+"))
    nest = draw(st.sampled_from(["right", "right", "left", "balanced"]))

    def build(ls):
        if len(ls) == 1:
            return ls[0]
        k = {"right": 1, "left": len(ls) - 1, "balanced": len(ls) // 2}[nest]
        return [op, build(ls[:k]), build(ls[k:])]

    # "ordered": every index list (and the target) is increasing in one global order and every level is dense in natural
    # order, so the identity order is legal, nothing is pruned and a lazy search returns at once; only these cases can
    # accuse a change.  Otherwise (a quarter of the thorough tier) index lists and formats are arbitrary, most orders are
    # excluded and tensora's own search is factorial (known finding F-M, matched by signature).
    ordered = tier == "quick" or draw(st.integers(0, 3)) != 0
    rank = {i: q for q, i in enumerate(pool)}
    if ordered:
        for t in leaves:
            t[2].sort(key=rank.get)
    tree = build(leaves)
    allidx = X.indexes_of(tree)
    if op == "+":
        # every term of a sum must mention every target index, so keep the target small or empty
        common = [i for i in allidx if all(i in t[2] for t in leaves)]
        tgt = common[:2]
    else:
        tgt = list(draw(st.permutations(allidx)))[: draw(st.integers(0, 3))]
    if ordered:
        tgt = sorted(tgt, key=rank.get)

    def fmt(n, out=False):
        if ordered:
            return "d" * n
        return draw(gen.formats(n, sparse_bias=0.4))

    fm = {"o": fmt(len(tgt))}
    for t in leaves:
        fm[t[1]] = fmt(len(t[2]))
    return {"assignment": X.assignment_text(["o", tgt], tree), "formats": fm, "kinds": draw(st.sampled_from(KIND_SUBSETS)),
            "language": draw(st.sampled_from(["c", "llvm"])), "shape": f"wide-{nest}" + ("" if ordered else "-unordered"),
            "indexes": sorted(set(allidx)), "globally_ordered": ordered, "alarm": 20}


# names that mean something to the generated code (kernel function names, fields of taco_tensor_t, type names without an
# underscore) but are perfectly legal tensor / index names; the unchanged tree handles all of them
MEANINGFUL = ["evaluate", "assemble", "compute", "vals", "indices", "dimensions", "order", "tensor", "taco", "capacity", "main", "t", "p"]


@st.composite
def meaningful_name_problems(draw, tier):
    base = draw(st.sampled_from(["o(i) = a(i,j) * x(j)", "o(i) = a(i) + b(i)", "o() = a(i) * a(i)", "o(i,j) = a(j,i) - b(i,j)"]))
    from tensora.expression import parse_assignment

    victims = draw(st.lists(st.sampled_from(["a", "o", "i", "x", "b", "j"]), min_size=1, max_size=2, unique=True))
    names = draw(st.lists(st.sampled_from(MEANINGFUL), min_size=len(victims), max_size=len(victims), unique=True))
    text = base
    for v, n in zip(victims, names):
        text = re.sub(rf"\b{v}\b", n, text)
    pa = parse_assignment(text)
    from returns.result import Failure

    if isinstance(pa, Failure):  # the renaming made a tensor and an index share a name: not a valid assignment
        text = base
        pa = parse_assignment(text)
    orders = dict(pa.unwrap().variable_orders())
    fm = {n: draw(gen.formats(k)) for n, k in orders.items()}
    idx = sorted(set(re.findall(r"[(,]([A-Za-z][A-Za-z0-9]*)", text)))
    kinds = draw(st.sampled_from([k for k in KIND_SUBSETS if len(k) >= 2] + [list(reversed(k)) for k in KIND_SUBSETS if len(k) >= 2]))
    return {"assignment": text, "formats": fm, "kinds": kinds, "language": draw(st.sampled_from(["c", "llvm", "llvm"])),
            "shape": "meaningful-names", "indexes": idx}


@st.composite
def long_dense_problems(draw, tier):
    """One long expression (12-60 operands) over a few dense tensors and literals: no merge lattice is involved (that is
    F-L's territory), so generation has to stay fast however long or deeply nested the expression is."""
    n = draw(st.sampled_from([12, 25, 40, 60]))
    atoms = [["t", "b", ["i"]], ["t", "c", ["i"]], ["t", "d", []], ["i", 2], ["f", "1.5"], ["t", "b", ["i"]]]
    nest = draw(st.sampled_from(["left", "right", "mixed"]))
    ops = draw(st.sampled_from(["+", "+-", "+-*", "*"]))
    tree = draw(st.sampled_from(atoms[:2]))
    for _ in range(n - 1):
        a = draw(st.sampled_from(atoms))
        op = draw(st.sampled_from(ops))
        right = nest == "right" or (nest == "mixed" and draw(st.booleans()))
        tree = [op, a, tree] if right else [op, tree, a]
    fm = {"o": "d", "b": "d", "c": "d", "d": ""}
    used = {t[1] for t in X.tensors(tree)}
    return {"assignment": X.assignment_text(["o", ["i"]], tree), "formats": {k: v for k, v in fm.items() if k == "o" or k in used},
            "kinds": draw(st.sampled_from(KIND_SUBSETS)), "language": draw(st.sampled_from(["c", "llvm"])), "shape": f"long-dense-{n}",
            "indexes": ["i"], "alarm": 30}


@st.composite
def reserved_problems(draw, tier):
    """A small valid problem in which one tensor or index is spelled as a reserved word."""
    base = draw(st.sampled_from(["o(i) = a(i,j) * x(j)", "o(i) = a(i) + b(i)", "o() = a(i)", "o(i,j) = a(j,i)"]))
    bad = draw(st.sampled_from(RESERVED))
    victim = draw(st.sampled_from(["a", "o", "i"]))
    text = re.sub(rf"\b{victim}\b", bad, base)
    from tensora.expression import parse_assignment

    pa = parse_assignment(text)
    orders = dict(pa.unwrap().variable_orders())
    fm = {n: draw(gen.formats(k)) for n, k in orders.items()}
    idx = sorted(set(re.findall(r"[(,]([A-Za-z][A-Za-z0-9]*)", text)))
    return {"assignment": text, "formats": fm, "kinds": draw(st.sampled_from(KIND_SUBSETS)),
            "language": draw(st.sampled_from(["c", "llvm"])), "shape": "reserved", "indexes": idx}


def check_random(case, ctx=None):
    ccode = []
    fails, info = check_problem(case, do_cli=True, do_tensor_method=True,
                                collect_code=ccode if case["language"] == "c" else None)
    for c, err in c_accepts_batch(ccode):
        fails.append(fail("c-code-rejected-by-compiler", f"{c['assignment']} {c['formats']}: {err}", reserved=uses_reserved(case)))
    st_ = info["status"]
    labels = {f"status:{st_}", f"shape:{case['shape']}", f"lang:{case['language']}"}
    if case["shape"] == "diagonal" and st_ == "code" and re.search(r"\((\w+),\1[,)]", case["assignment"]):
        fails.append(fail("diagonal-access-produced-code", f"{case['assignment']}"))
    if info.get("tensor_method"):
        labels.add(f"tensor_method:{info['tensor_method']}")
    nontrivial = any("s" in f for f in case["formats"].values())
    return result(fails, labels, nontrivial, jhash([case["assignment"], case["formats"]]),
                  {k: case[k] for k in ("assignment", "formats", "kinds", "language", "shape")} | {"status": st_},
                  {"cli_runs": 1, "tensor_method_builds": 1, "c_kernels_syntax_checked": len(ccode)})


STREAMS = {
    "random": {"strategy": random_problems, "check": check_random},
    "reserved": {"strategy": reserved_problems, "check": check_random},
    "wide": {"strategy": wide_problems, "check": check_random},
    "meaningful": {"strategy": meaningful_name_problems, "check": check_random},
    "long_dense": {"strategy": long_dense_problems, "check": check_random},
}


def fl_task(_):
    """F-L witness: a sum of 9 compressed vectors."""
    stats = Stats()
    names = [f"t{k}" for k in range(9)]
    case = {"assignment": "o(i) = " + " + ".join(f"{n}(i)" for n in names),
            "formats": {"o": "s", **{n: "s" for n in names}}, "kinds": ["evaluate"], "language": "c", "indexes": ["i"]}
    fails, info = check_problem(case)
    stats.add(case, result(fails, {"witness:F-L"}, False, None, None))
    return stats


def replay(payload):
    case = payload["case"]
    ccode = []
    fails, _info = check_problem(case, do_cli=True, do_tensor_method=True,
                                 collect_code=ccode if case["language"] == "c" else None)
    for c, err in c_accepts_batch(ccode):
        fails.append(fail("c-code-rejected-by-compiler", f"{c['assignment']}: {err}", reserved=uses_reserved(case)))
    return fails


def run(chk):
    bridge.ensure_tensora()
    quick = chk.tier == "quick"
    limit = 1024 if quick else 4096
    tasks = []
    exhaustive = []
    sampled = []
    for name, text, in_quick in templates.TEMPLATES:
        if quick and not in_quick:
            continue
        orders = templates.tensor_orders(text)
        fmts, complete = templates.enumerate_formats(orders, limit=limit, seed=chk.seed)
        (exhaustive if complete else sampled).append(name)
        chunk = 64
        for off in range(0, len(fmts), chunk):
            tasks.append((name, text, fmts[off : off + chunk], off, True))
    stats = run_tasks(_dispatch, tasks)
    chk.absorb(stats, kind="problem")
    chk.absorb(run_stream(__name__, "random", chk.tier, chk.seed, 480 if quick else 20000), kind="problem")
    chk.absorb(run_stream(__name__, "reserved", chk.tier, chk.seed, 160 if quick else 3000), kind="problem")
    chk.absorb(run_stream(__name__, "wide", chk.tier, chk.seed, 160 if quick else 2400), kind="problem")
    chk.absorb(run_stream(__name__, "meaningful", chk.tier, chk.seed, 160 if quick else 3000), kind="problem")
    chk.absorb(run_stream(__name__, "long_dense", chk.tier, chk.seed, 64 if quick else 800), kind="problem")
    if not quick:
        from ..runner import coverage_guided

        coverage_guided(chk, __name__, "random", 420, procs=8, kind="problem")
    chk.coverage_extra["exhaustive_templates"] = exhaustive
    chk.coverage_extra["sampled_templates"] = sampled
    chk.coverage_extra["exhaustive"] = False


def _dispatch(task):
    if task[0] == "__FL__":
        return fl_task(task)
    return sweep_task(task)
