"""C14 - concurrent evaluations behave like sequential ones."""
from __future__ import annotations

import os

from hypothesis import strategies as st

from .. import bridge
from .. import cases as C
from ..native.pool import Worker
from ..runner import Stats, fail, generate_cases, jhash, result, run_tasks

PROP = "C14"
LEVEL = "exploration"
RULE = (
    "workloads of 2-4 (controlled) or 8-32 (stress) evaluate calls drawn by Hypothesis from a pool of 10 distinct "
    "problems (different assignments, formats and both back ends) with repeated problems so that cache misses are "
    "raced. Controlled mode: the threads run under a line-level cooperative scheduler (sys.settrace restricted to "
    "tensora/compile/*.py; the cffi build lock is replaced by a scheduler-aware lock) whose choice sequence is "
    "part of the generated case, so interleavings of cache lookup, global_weakkeydict updates and the build lock "
    "are generated and replayable. Stress mode: 16 free-running threads, barrier start, switch interval 1e-6 s, "
    "several rounds. Oracle: every call's raw result (dims, pos/crd, vals) equals the same call made alone on a "
    "cleared cache in the same process; no exception, no hang, no crash. non-trivial = workload with >=2 distinct "
    "problems and >=1 problem requested by >=2 threads on a cold cache; distinct by (workload, choices)."
)
ASSUMPTIONS = [
    "races inside LLVM/cffi native code while the GIL is released are only hit by chance in stress mode; a green "
    "run says little about them (DESIGN.md C14 'honest limit')",
    "a stress-mode failure is real (the oracle is deterministic) but may not replay; the workload is saved anyway",
]

PROBLEMS = [
    ("y(i) = A(i,j) * x(j)", "d", {"A": ("ij", "ds"), "x": ("j", "d")}),
    ("y(i) = A(i,j) * x(j)", "s", {"A": ("ij", "ds"), "x": ("j", "s")}),
    ("y(i) = A(i,j) * x(j) + 1", "d", {"A": ("ij", "ds"), "x": ("j", "d")}),
    ("y(i,j) = A(i,j) + B(i,j)", "ds", {"A": ("ij", "ds"), "B": ("ij", "ds")}),
    ("y(i,j) = A(i,j) * B(i,j)", "ss", {"A": ("ij", "ss"), "B": ("ij", "ds")}),
    ("y(j,i) = A(i,j)", "ds", {"A": ("ij", "d1s0")}),
    ("y() = x(i) * x(i)", "", {"x": ("i", "s")}),
    ("y(i,k) = A(i,j) * B(j,k)", "dd", {"A": ("ij", "ds"), "B": ("jk", "ds")}),
    ("z(i) = x(i) - w(i)", "s", {"x": ("i", "s"), "w": ("i", "s")}),
    ("y(i,j) = A(i,j) * 2", "ss", {"A": ("ij", "ss")}),
    # one tensor mentioned twice (per-assignment numbering of tensor occurrences must not be shared between threads)
    ("y(i) = b(i) * b(i)", "s", {"b": ("i", "s")}),
    ("y(i) = b(i) + b(i) * b(i)", "s", {"b": ("i", "s")}),
    ("y(i,k) = A(i,j) * A(j,k)", "dd", {"A": ("ij", "ds")}),
]
SQUARE = {12}  # problems whose operand is used with two index lists: all sizes equal
# the same cached kernel is called with differently sized inputs (per-call state must not live on the shared object)
SIZES = [{"i": 2, "j": 3, "k": 2}, {"i": 4, "j": 3, "k": 2}, {"i": 2, "j": 5, "k": 3}, {"i": 3, "j": 3, "k": 3}]


OPERATORS = [("*", "r", "ds"), ("+", "l", "ss"), ("-", "l", "d1s0"), ("*", "l", "ss")]
N_PROBLEMS = len(PROBLEMS) + len(OPERATORS)


def make_call(pidx, variant, backend, fault=0):
    """fault=1: one dimension of one operand is enlarged so that two participants of an index disagree - the call
    must be refused (as it is when made alone), whatever the other threads are doing."""
    import itertools

    pidx = pidx % N_PROBLEMS
    if pidx >= len(PROBLEMS):
        # operator with a scalar: every call uses its own number (2.0, 3.5, 5.0, 6.5 by variant)
        op, side, fmt = OPERATORS[pidx - len(PROBLEMS)]
        dims = (2, 3)
        dok = {c: float((c[0] * 3 + c[1] + variant) % 4 + 1) / 2 for c in itertools.product(range(2), range(3)) if (c[0] + c[1] + variant) % 3}
        modes, ordering = C.fmt_parts(fmt)
        levels, vals = C.levels_from_dok(dok, dims, modes, ordering)
        return {"entry": "operator", "op": op, "side": side, "scalar": 2.0 + 1.5 * (variant % 4), "backend": "llvm",
                "inputs": {"t": {"dims": list(dims), "fmt": fmt, "stored": {"levels": levels, "vals": vals}}},
                "problem": pidx, "variant": variant, "assignment": f"operator {op} scalar on the {side}", "out_fmt": ""}
    text, out_fmt, ins = PROBLEMS[pidx % len(PROBLEMS)]
    sizes = SIZES[variant % len(SIZES)]
    if pidx in SQUARE:
        sizes = {i: 2 + variant % 3 for i in "ijk"}
    inputs = {}
    for k, (name, (idx, fmt)) in enumerate(sorted(ins.items())):
        dims = tuple(sizes[i] for i in idx)
        dok = {}
        for c in itertools.product(*[range(d) for d in dims]):
            h = (sum((q + 2) * v for q, v in enumerate(c)) + variant + 3 * k) % 4
            if h != 0:
                dok[c] = float(h + variant % 3) / 2
        modes, ordering = C.fmt_parts(fmt)
        levels, vals = C.levels_from_dok(dok, dims, modes, ordering)
        inputs[name] = {"dims": list(dims), "fmt": fmt, "stored": {"levels": levels, "vals": vals}}
    inconsistent = False
    if fault and len(ins) >= 2:
        names = sorted(ins)
        shared = [(n, p) for n in names[1:] for p, i in enumerate(ins[n][0]) if any(i in ins[m][0] for m in names if m != n)]
        if shared:
            n, p = shared[variant % len(shared)]
            dims = list(inputs[n]["dims"])
            dims[p] += 1
            modes, ordering = C.fmt_parts(ins[n][1])
            levels, vals = C.levels_from_dok({}, tuple(dims), modes, ordering)
            inputs[n] = {"dims": dims, "fmt": ins[n][1], "stored": {"levels": levels, "vals": vals}}
            inconsistent = True
    return {"inconsistent": inconsistent, "assignment": text, "out_fmt": out_fmt, "inputs": inputs, "backend": backend, "problem": pidx % len(PROBLEMS),
            "variant": variant, "entry": "method" if (pidx + variant) % 3 == 0 else "evaluate"}


@st.composite
def controlled_cases(draw, tier):
    n = draw(st.integers(2, 4))
    base = draw(st.integers(0, N_PROBLEMS - 1))
    calls = []
    for _ in range(n):
        same = draw(st.integers(0, 2)) != 0
        p = base if same else draw(st.integers(0, N_PROBLEMS - 1))
        backend = "cffi" if draw(st.integers(0, 11)) == 0 else "llvm"
        calls.append([p, draw(st.integers(0, 3)), backend, int(draw(st.integers(0, 5)) == 0)])
    kind = draw(st.sampled_from(["random", "random", "round_robin", "round_robin", "bursts", "offset", "offset", "pause", "pause"]))
    pause = None
    if kind == "random":
        choices = draw(st.lists(st.integers(0, 3), min_size=50, max_size=400))
    elif kind == "round_robin":
        # lock-step: every thread advances one traced line in turn (the worst case for per-call state kept on a
        # shared object); an optional offset de-synchronises the threads by a few lines
        choices = [0] * draw(st.integers(0, 12)) + list(range(n)) * 40
        choices = choices[: 40 * n]
    elif kind == "pause":
        # one thread is suspended after its k-th line inside tensora/compile/* until the others are done (check-then-act
        # windows in the cache, the ownership table, per-call state); the others run round-robin
        pause = [draw(st.integers(0, n - 1)), draw(st.integers(0, 90))]
        choices = list(range(n)) * 10
    elif kind == "offset":
        # one thread runs alone for k traced lines (anywhere in the front end or the back end), then the others get
        # short bursts: a thread is preempted in the middle of a pipeline stage while another one starts that stage
        k = draw(st.integers(0, 700))
        b = draw(st.integers(1, 6))
        choices = [0] * k + [t for _ in range(60) for t in range(n - 1, -1, -1) for _ in range(b)]
    else:
        b = draw(st.integers(2, 9))
        choices = [t for t in range(n) for _ in range(b)]
    warm = draw(st.booleans())
    # a kernel cache at capacity: the workload's kernels are the least recently used entries of a full cache and one call
    # asks for a never-seen problem, so hits, misses and evictions interleave
    full = warm and draw(st.integers(0, 3)) == 0
    fresh = not warm and draw(st.integers(0, 3)) == 0
    return {"mode": "controlled", "calls": calls, "choices": choices, "schedule": kind, "warm": warm, "full_cache": full,
            "pause": pause, "fresh_process": fresh}


@st.composite
def stress_cases(draw, tier):
    n = draw(st.integers(8, 32))
    hot = draw(st.lists(st.integers(0, N_PROBLEMS - 1), min_size=1, max_size=3))
    if draw(st.booleans()):
        # 'front-end storm': many threads lower, at the same time, assignments that mention one tensor twice (and one other
        # problem) on a cold cache - state shared by the stages *before* compilation is hit from all sides
        n = 32
        hot = [draw(st.sampled_from([6, 10, 11, 12])), draw(st.sampled_from([6, 10, 11, 12])), draw(st.integers(0, N_PROBLEMS - 1))]
    calls = []
    for _ in range(n):
        p = draw(st.sampled_from(hot)) if draw(st.integers(0, 3)) else draw(st.integers(0, N_PROBLEMS - 1))
        backend = "cffi" if draw(st.integers(0, 24)) == 0 else "llvm"
        calls.append([p, draw(st.integers(0, 3)), backend, int(draw(st.integers(0, 7)) == 0)])
    return {"mode": "stress", "calls": calls, "rounds": 3 if tier == "quick" else 6, "fresh_process": draw(st.integers(0, 2)) == 0}


def compare(case, seq, conc, tag):
    fails = []
    for k, (s, c) in enumerate(zip(seq, conc)):
        call = case["calls"][k]
        d = f"{tag}: call {k} = problem {call[0]} ({make_call(*call)['assignment']}) variant {call[1]} {call[2]}"
        if "raised" in s:
            if not make_call(*call).get("inconsistent"):
                raise bridge.HarnessError(f"sequential reference call failed: {d}: {s['raised']}")
            # an inconsistent call is refused when made alone; it must be refused here too
            if s["raised"].split(":")[0] not in ("ValueError", "TypeError"):
                # (a compiler that could not be started, a full disk ...: the environment, not a verdict)
                raise bridge.HarnessError(f"sequential reference of an inconsistent call failed in an unexpected way: {d}: {s['raised']}")
            if c is None:
                fails.append(fail("call-did-not-finish", d))
            elif "raised" not in c:
                fails.append(fail("inconsistent-call-accepted-under-concurrency", f"{d}: alone it raises {s['raised']}, here it returned {c['raw']}"))
            elif c["raised"].split(":")[0] != s["raised"].split(":")[0]:
                fails.append(fail(f"concurrent-call-raises:{c['raised'].split(':')[0]}", f"{d}: alone it raises {s['raised']}, here {c['raised']}"))
            continue
        if make_call(*call).get("inconsistent"):
            raise bridge.HarnessError(f"an inconsistent call was accepted sequentially: {d}")
        if c is None:
            fails.append(fail("call-did-not-finish", d))
        elif "raised" in c:
            fails.append(fail(f"concurrent-call-raises:{c['raised'].split(':')[0]}", f"{d}: {c['raised']}"))
        elif c["raw"] != s["raw"]:
            fails.append(fail("result-differs-from-sequential", f"{d}: {c['raw']} vs {s['raw']}"))
    return fails


def check(case, worker):
    workload = [make_call(*c) for c in case["calls"]]
    probs = [c[0] % N_PROBLEMS for c in case["calls"]]
    distinct = len(set((p, c[2]) for p, c in zip(probs, case["calls"])))
    raced = any(probs.count(p) >= 2 for p in set(probs))
    labels = {f"mode:{case['mode']}", f"threads:{min(len(workload), 16)}"}
    if case["mode"] == "controlled":
        labels.add(f"schedule:{case.get('schedule', 'random')}")
        labels.add("cache_warm" if case.get("warm") else "cache_cold")
    if any(c[2] == "cffi" for c in case["calls"]):
        labels.add("cffi_backend_involved")
    if any(w.get("inconsistent") for w in workload):
        labels.add("inconsistent_call_in_workload")
    if any(c[0] % N_PROBLEMS in (10, 11, 12) for c in case["calls"]):
        labels.add("tensor_mentioned_twice")
    extra = {}
    if case["mode"] == "controlled":
        if case.get("full_cache"):
            labels.add("kernel_cache_full")
        if case.get("fresh_process"):
            worker.close()
            labels.add("first_evaluations_of_a_fresh_process_race")
        rep = worker.call({"op": "controlled", "workload": workload, "choices": case["choices"],
                           "warm": case.get("warm", False), "full_cache": case.get("full_cache", False),
                           "pause": case.get("pause"), "concurrent_first": bool(case.get("fresh_process"))}, timeout=600)
    else:
        if case.get("fresh_process"):
            worker.close()  # the next call starts a new child: nothing has been initialised, generated or compiled in it
            labels.add("first_evaluations_of_a_fresh_process_race")
        rep = worker.call({"op": "stress", "workload": workload, "nthreads": 16, "rounds": case["rounds"],
                           "concurrent_first": bool(case.get("fresh_process"))}, timeout=900)
    if "crash" in rep:
        return result([fail("process-crashed", f"{case['mode']} workload {case['calls']}: {rep['crash']}")], labels,
                      True, jhash(case), {"calls": case["calls"]})
    if "error" in rep:
        raise bridge.HarnessError(rep["error"] + rep.get("trace", ""))
    fails = []
    if case["mode"] == "controlled":
        info = rep["info"]
        extra = {"yield_points": info["yield_points"], "context_switches": info["switches"],
                 "token_handed_on_from_blocked_thread": info.get("token_handed_on", 0)}
        if info["hung"]:
            fails.append(fail("threads-hung", f"controlled workload {case['calls']}"))
            worker.close()
        fails += compare(case, rep["sequential"], rep["concurrent"], "controlled")
        if info["switches"] >= 3:
            labels.add("interleaved")
    else:
        for r, rd in enumerate(rep["rounds"]):
            if rd["hung"]:
                fails.append(fail("threads-hung", f"stress round {r} workload {case['calls']}"))
                worker.close()
                break
            fails += compare(case, rep["sequential"], rd["results"], f"stress round {r}")
        extra = {"stress_rounds": len(rep["rounds"])}
    seen = set()
    uniq = [f for f in fails if not (f["bucket"] in seen or seen.add(f["bucket"]))]
    nontrivial = distinct >= 2 and raced
    return result(uniq, labels, nontrivial, jhash(case), {"mode": case["mode"], "calls": case["calls"],
                                                          "choices_head": case.get("choices", [])[:20]}, extra)


# -------------------------------------------------------- code generation under concurrency
GEN_POOL = [
    ("y(i) = b(i) * b(i)", [("y", "s"), ("b", "s")]), ("y(i) = b(i) + b(i) * b(i)", [("y", "s"), ("b", "s")]),
    ("y(i,k) = A(i,j) * A(j,k)", [("y", "dd"), ("A", "ds")]), ("y() = x(i) * x(i)", [("y", ""), ("x", "s")]),
    ("y(i) = A(i,j) * x(j) + 1", [("y", "d"), ("A", "ds"), ("x", "d")]), ("y(i,j) = A(i,j) + B(i,j)", [("y", "ds"), ("A", "ds"), ("B", "ds")]),
    ("y(i,j) = A(i,j) * B(i,j) - C(i,j)", [("y", "ss"), ("A", "ss"), ("B", "ds"), ("C", "ss")]), ("y(j,i) = A(i,j)", [("y", "ds"), ("A", "d1s0")]),
    ("z(i) = x(i) - w(i) * x(i)", [("z", "s"), ("x", "s"), ("w", "s")]), ("y(i) = a(i,k) * b(k,j) * c(j)", [("y", "d"), ("a", "ds"), ("b", "ds"), ("c", "d")]),
]


@st.composite
def generation_cases(draw, tier):
    """Requests for generated *text* made by several threads at once: no compilation, so the threads spend all their time
    in the stages that build and print the kernel; under the line-level scheduler (2-3 threads) or free-running (8-24)."""
    controlled = draw(st.booleans())
    n = draw(st.integers(2, 3)) if controlled else draw(st.integers(8, 24))
    reqs = []
    for _ in range(n):
        text, fm = GEN_POOL[draw(st.integers(0, len(GEN_POOL) - 1))]
        reqs.append({"assignment": text, "formats": [list(p) for p in fm],
                     "kinds": draw(st.sampled_from([["evaluate"], ["evaluate", "assemble", "compute"], ["compute", "assemble"]])),
                     "language": draw(st.sampled_from(["c", "llvm"]))})
    case = {"mode": "generate", "requests": reqs, "fresh_process": draw(st.integers(0, 3)) == 0}
    if controlled:
        kind = draw(st.sampled_from(["round_robin", "bursts", "random"]))
        if kind == "round_robin":
            case["choices"] = [0] * draw(st.integers(0, 40)) + list(range(n)) * 30
        elif kind == "bursts":
            b = draw(st.integers(2, 25))
            case["choices"] = [t for t in range(n) for _ in range(b)]
        else:
            case["choices"] = draw(st.lists(st.integers(0, 2), min_size=30, max_size=200))
    return case


def check_generation(case, worker):
    labels = {"mode:generate", "generate:controlled" if case.get("choices") is not None else "generate:free-running"}
    if case.get("fresh_process"):
        worker.close()  # nothing has been generated in the new child yet (one-time initialisation races)
        labels.add("first_generations_of_a_fresh_process_race")
    rep = worker.call({"op": "generate", "workload": case["requests"], "choices": case.get("choices"), "nthreads": 8, "rounds": 2,
                       "concurrent_first": bool(case.get("fresh_process"))}, timeout=600)
    if "crash" in rep:
        return result([fail("process-crashed", f"concurrent code generation {case['requests']}: {rep['crash']}")], labels, True, jhash(case), None)
    if "error" in rep:
        raise bridge.HarnessError(rep["error"] + rep.get("trace", ""))
    fails = []
    for r, rd in enumerate(rep["rounds"]):
        if rd["hung"]:
            fails.append(fail("threads-hung", f"concurrent code generation round {r}"))
            worker.close()
            break
        for k, (s, c) in enumerate(zip(rep["sequential"], rd["results"])):
            g = case["requests"][k]
            d = f"generate_code({g['assignment']!r}, {g['formats']}, {g['kinds']}, {g['language']}) by thread {k}, round {r}"
            if "raised" in s:
                raise bridge.HarnessError(f"sequential reference generation failed: {d}: {s['raised']}")
            if c is None:
                fails.append(fail("call-did-not-finish", d))
            elif "raised" in c:
                fails.append(fail(f"concurrent-generation-raises:{c['raised'].split(':')[0]}", f"{d}: {c['raised']}"))
            elif c != s:
                fails.append(fail("generated-text-differs-from-sequential", f"{d}: {c} vs alone {s}"))
    seen = set()
    uniq = [f for f in fails if not (f["bucket"] in seen or seen.add(f["bucket"]))]
    distinct = len({(g["assignment"], g["language"], tuple(g["kinds"])) for g in case["requests"]})
    return result(uniq, labels, distinct >= 2, jhash(case), {"mode": "generate", "requests": [[g["assignment"], g["language"]] for g in case["requests"]][:6]},
                  {"generation_requests": len(case["requests"]) * len(rep["rounds"]), "context_switches": rep.get("switches", 0)})


def task(t):
    kind, tier, seed, shard, n = t
    stats = Stats()
    strat = {"controlled": controlled_cases, "stress": stress_cases, "generate": generation_cases}[kind](tier)
    w = Worker(module="harness.native.concchild")
    try:
        for case in generate_cases(strat, n, seed * 6007 + shard + {"controlled": 0, "stress": 500, "generate": 900}[kind]):
            stats.add(case, check_generation(case, w) if kind == "generate" else check(case, w))
    finally:
        w.close()
    return stats


# -------------------------------------------- bounded-exhaustive single preemption (thorough tier)
SWEEP_WORKLOADS = {
    # name: (calls, options, number of pause points enumerated for thread 0)
    "first-use-same": ([[0, 0, "llvm", 0], [0, 1, "llvm", 0]], {"fresh_process": True}, 140),
    "first-use-different": ([[10, 0, "llvm", 0], [3, 1, "llvm", 0]], {"fresh_process": True}, 140),
    # (no second hit on the same kernel: it would refresh the entry that the miss is supposed to evict)
    "full-cache-hit-vs-miss": ([[0, 0, "llvm", 0], [3, 1, "llvm", 0]], {"warm": True, "full_cache": True}, 70),
    "warm-same-kernel": ([[4, 0, "llvm", 0], [4, 1, "llvm", 0]], {"warm": True}, 70),
}


def pause_sweep_task(t):
    """Thread 0 is suspended after its k-th line inside tensora/compile/* until the other threads are done, for EVERY k in
    the chunk: the check-then-act windows of the kernel cache, of one-time initialisation and of per-call state are each
    visited once, instead of being hoped for."""
    name, ks = t
    calls, opts, _n = SWEEP_WORKLOADS[name]
    stats = Stats()
    w = Worker(module="harness.native.concchild")
    try:
        for k in ks:
            case = {"mode": "controlled", "calls": calls, "choices": list(range(len(calls))) * 10, "schedule": "pause",
                    "pause": [0, k], "warm": opts.get("warm", False), "full_cache": opts.get("full_cache", False),
                    "fresh_process": opts.get("fresh_process", False), "sweep": name}
            res = check(case, w)
            res["labels"] = sorted(set(res["labels"]) | {f"pause_sweep:{name}"})
            stats.add(case, res)
    finally:
        w.close()
    return stats


def replay(payload):
    w = Worker(module="harness.native.concchild")
    try:
        if payload["case"].get("mode") == "generate":
            return check_generation(payload["case"], w)["fails"]
        return check(payload["case"], w)["fails"]
    finally:
        w.close()


def run(chk):
    quick = chk.tier == "quick"
    nc = 96 if quick else 2400
    ns = 30 if quick else 300
    tasks = [("controlled", chk.tier, chk.seed, s, nc // 12) for s in range(12)]
    tasks += [("stress", chk.tier, chk.seed, s, max(1, ns // 6)) for s in range(6)]
    ng = 64 if quick else 1600
    tasks += [("generate", chk.tier, chk.seed, s, ng // 4) for s in range(4)]
    chk.absorb(run_tasks(task, tasks), kind="workload")
    if not quick and os.environ.get("VERIF_C14_PAUSE_SWEEP") == "1":
        # opt-in: the full sweep was validated against the seeded changes C14-f/g but its complete run on the unchanged
        # tree did not finish inside the session's time budget, so it is not part of the registered thorough command
        sweep = []
        for name, (_c, _o, n) in SWEEP_WORKLOADS.items():
            ks = list(range(n))
            sweep += [(name, ks[i : i + 10]) for i in range(0, n, 10)]
        chk.absorb(run_tasks(pause_sweep_task, sweep), kind="workload")
        chk.coverage_extra["exhaustive_subdomain"] = (
            "single preemption of thread 0 at each of its first 70-140 lines inside tensora/compile/* for four fixed workloads "
            "(first use in a fresh process: same / different problems; hit on the oldest entry of a full kernel cache against "
            "a miss; two calls of one cached kernel)")


def health(cov):
    p = []
    if cov["classes"].get("interleaved", 0) == 0:
        p.append("no controlled schedule had >= 3 context switches")
    return p
