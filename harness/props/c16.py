"""C16 - work follows sparsity, not dimension size."""
from __future__ import annotations

from hypothesis import strategies as st

from .. import bridge
from .. import cases as C
from .. import exprs as X
from .. import gen, kcheck, shrink
from ..machine import Trap
from ..runner import fail, result, run_stream

PROP = "C16"
LEVEL = "exploration"
RULE = (
    "generated problems are *constructed* to have a qualifying index class x: every additive term of the expanded "
    "right-hand side mentions x (decided by the harness's monomial expansion), and every level that stores x (or "
    "an index aliased to x through a tensor used twice) in any operand or in the output is made compressed; the "
    "whole alias class is scaled together. The optimised evaluate kernel runs on the IR abstract machine with the "
    "dimension of x multiplied by 1, 10, 100 and 10^4 while the stored entries stay the same (only "
    "dimensions[] changes). Oracle (metamorphic): loop-iteration and statement counters are equal at every scale, "
    "the stored result is identical to the x1 result, and the x1 result equals the exact-rational meaning. "
    "non-trivial = x has >=2 stored coordinates in some operand AND the kernel executed >=1 loop iteration; "
    "distinct by case hash."
)
ASSUMPTIONS = [
    "work is measured as executed IR statements and loop iterations on the abstract machine, not wall-clock time",
    "a run that exceeds the step budget computed from the unscaled sizes at a larger scale is reported as a "
    "violation (work grew with the dimension), never as a timeout",
]

SCALES = [1, 10, 100, 10000]


def qualifying_classes(case):
    """Alias classes all of whose members are mentioned by every monomial (each index individually)."""
    tree = case["expr"]
    tgt = case["target"][1]
    monos = X.monomials(tree)
    out = []
    for cls in gen.alias_classes(tree, tgt):
        ok = True
        for _c, ts in monos:
            have = {i for t in ts for i in t[2]}
            # every index of the class must qualify on its own: a term lacking it is broadcast along it
            if not set(cls) <= have:
                ok = False
                break
        if ok and monos:
            out.append(cls)
    return out


def force_compressed(case, cls):
    """Rewrite formats so that every level storing an index of ``cls`` is compressed (construction, not rejection)."""
    fm = dict(case["formats"])
    occ = {case["target"][0]: case["target"][1]}
    for t in X.tensors(case["expr"]):
        occ.setdefault(t[1], [])
        # a tensor used twice: any of its index lists may put a class member at a position
        for p, i in enumerate(t[2]):
            pass
    pos_in_cls = {}
    for t in [["t", case["target"][0], case["target"][1]]] + X.tensors(case["expr"]):
        for p, i in enumerate(t[2]):
            if i in cls:
                pos_in_cls.setdefault(t[1], set()).add(p)
    for name, positions in pos_in_cls.items():
        modes, ordering = C.fmt_parts(fm[name])
        modes = list(modes)
        for l, d in enumerate(ordering):
            if d in positions:
                modes[l] = "s"
        fm[name] = C.fmt_text(tuple(modes), ordering)
    return kcheck.with_formats(case, fm)


@st.composite
def cases(draw, tier):
    c = draw(gen.kernel_cases(max_leaves=4 if tier == "quick" else 5, value_class="exact", ops="***+-", literal_rate=6,
                              min_dim=2, order_choices=(1, 1, 2, 2, 3), p_sparse_in=7, density_choices=(2, 2, 3, 3, 1)))
    c["pick"] = draw(st.integers(0, 7))
    return c


@st.composite
def factored_cases(draw, tier):
    """Products in which one factor is a parenthesised sum of two or three tensors over x plus, usually, an addend that
    lacks x (a literal, a scalar tensor, a tensor over another index), and another factor is a plain tensor over x: the
    expansion makes every additive term mention x, but the sparse/dense decision is taken on the unexpanded tree, where
    the sum on its own is not sparse.  Also sums of two such products, and a second index below or above x."""
    x = "i"
    other = draw(st.sampled_from([None, None, "j"]))
    nsum = draw(st.integers(2, 3))

    def over_x(name):
        if other and draw(st.integers(0, 2)) == 0:
            return ["t", name, [x, other] if draw(st.booleans()) else [other, x]]
        return ["t", name, [x]]

    terms = [over_x("abc"[q]) for q in range(nsum)]
    lacking = draw(st.sampled_from(["lit", "lit", "scalar", "other", "none"]))
    if lacking == "lit":
        terms.append(draw(st.sampled_from([["i", 1], ["i", 2], ["f", "0.5"]])))
    elif lacking == "scalar":
        terms.append(["t", "e", []])
    elif lacking == "other" and other:
        terms.append(["t", "e", [other]])
    terms = list(draw(st.permutations(terms)))
    total = terms[0]
    for t in terms[1:]:
        total = [draw(st.sampled_from("++-")), total, t] if draw(st.integers(0, 3)) else [draw(st.sampled_from("+-")), t, total]
    driver = over_x("d")
    tree = ["*", driver, total] if draw(st.booleans()) else ["*", total, driver]
    if draw(st.integers(0, 3)) == 0:
        tree = ["*", tree, over_x("f")] if draw(st.booleans()) else ["+", tree, ["*", over_x("f"), over_x("g")]]
    used = X.indexes_of(tree)
    tgt = [i for i in used if draw(st.integers(0, 3))]
    tgt = list(draw(st.permutations(tgt)))
    sizes = {i: draw(st.sampled_from([2, 3, 4])) for i in used}
    fm = {"o": draw(gen.formats(len(tgt), sparse_bias=0.7))}
    inputs = {}
    seen = {}
    for t in X.tensors(tree):
        if t[1] in seen:
            continue
        seen[t[1]] = t
        fm[t[1]] = draw(gen.formats(len(t[2]), sparse_bias=0.7))
        inputs[t[1]] = draw(gen.stored_tensor(tuple(sizes[i] for i in t[2]), fm[t[1]], "exact", draw(st.sampled_from([2, 2, 3, 1]))))
    order = ["o"] + gen.tensors_in_order(tree)
    return {"target": ["o", tgt], "expr": tree, "assignment": X.assignment_text(["o", tgt], tree),
            "formats": {n: fm[n] for n in order}, "sizes": sizes, "inputs": inputs, "value_class": "exact",
            "pick": draw(st.integers(0, 7))}


def check(case, ctx=None):
    labels = set()
    q = qualifying_classes(case)
    if not q:
        return result([], {"no_qualifying_index"}, False, kcheck.case_id(case), None)
    cls = q[case.get("pick", 0) % len(q)]
    c = force_compressed(case, cls)
    c["capacity"] = None
    labels |= set(gen.case_features(c))
    status, payload = kcheck.build(c)
    if status != "ok":
        w = payload if isinstance(payload, str) else payload[0]
        return result([], labels | {f"{status}:{w}"}, False, kcheck.case_id(c), None)
    fn = bridge.functions_of(payload)["evaluate"]
    _p, asg, _f = bridge.problem_of(c)
    d = f"{c['assignment']} {c['formats']} sizes={c['sizes']} x={cls}"
    budget = 4 * bridge.step_budget(fn, c)
    runs = []
    fails = []
    base_stored = None
    for scale in SCALES:
        ov = {}
        for t in [["t", c["target"][0], c["target"][1]]] + X.tensors(c["expr"]):
            dims = [c["sizes"][i] * (scale if i in cls else 1) for i in t[2]]
            ov[t[1]] = dims
        try:
            m, structs, _rv = bridge.run_on_machine(c, fn, dims_override=ov, budget=budget)
        except Trap as t:
            if scale == 1:
                return result([fail(f"trap-unscaled:{t.kind}", f"{d}: {t.msg}", **kcheck.trap_info(t))], labels, False,
                              kcheck.case_id(c), kcheck.sample_of(c))
            fails.append(fail(f"trap-when-scaled:{t.kind}", f"{d}: at x{scale}: {t.msg}"))
            break
        st_ = structs[c["target"][0]]
        errs, stored, _arr, _n = C.decode_struct(st_, strict=True)
        runs.append((scale, m.loop_iters, m.steps))
        if stored is None:
            fails.append(fail("invalid-result-when-scaled", f"{d}: at x{scale}: {errs}"))
            break
        if scale == 1:
            base_stored = stored
            exp = kcheck.Expected(c)
            vf = exp.value_fails(stored, "machine x1")
            if vf:
                return result(vf, labels, False, kcheck.case_id(c), kcheck.sample_of(c))
            loops = m.loop_iters
        elif stored != base_stored:
            fails.append(fail("result-changes-with-dimension", f"{d}: at x{scale}"))
            break
    if not fails and len({(r[1], r[2]) for r in runs}) != 1:
        fails.append(fail("work-depends-on-dimension", f"{d}: (scale, loop iterations, statements) = {runs}"))
    # non-triviality: x has >= 2 stored coordinates in some operand
    two = False
    for t in X.tensors(c["expr"]):
        modes, ordering = C.fmt_parts(c["formats"][t[1]])
        for l, dpos in enumerate(ordering):
            if t[2][dpos] in cls:
                lv = c["inputs"][t[1]]["levels"][l]
                if lv is not None and len(set(lv[1])) >= 2:
                    two = True
    labels.add("qualifying")
    if "o" in [c["target"][0]] and any(i in cls for i in c["target"][1]):
        labels.add("x_in_output")
    else:
        labels.add("x_contracted")
    s = kcheck.sample_of(c)
    s["scaled_index_class"] = cls
    s["runs(scale,loops,steps)"] = runs
    return result(fails, labels, two and runs and runs[0][1] >= 1, kcheck.case_id(c), s, {"scaled_runs": len(runs)})


STREAMS = {"main": {"strategy": cases, "check": check}, "factored": {"strategy": factored_cases, "check": check}}


def shrink_case(case, bucket):
    pred = lambda c: any(f["bucket"] == bucket for f in check(c)["fails"])  # noqa: E731
    if not pred(case):
        return case

    def cands(c):
        for cand in shrink.kernel_candidates(c):
            cand = dict(cand)
            cand["pick"] = c.get("pick", 0)
            yield cand

    from ..runner import minimise

    return minimise(case, cands, pred, 200)[0]


def replay(payload):
    return check(payload["case"])["fails"]


def run(chk):
    n = 1200 if chk.tier == "quick" else 40000
    chk.absorb(run_stream(__name__, "main", chk.tier, chk.seed, n), shrink=shrink_case)
    chk.absorb(run_stream(__name__, "factored", chk.tier, chk.seed, n // 3), shrink=shrink_case)


def health(cov):
    p = []
    if cov["classes"].get("qualifying", 0) < 0.1 * max(1, cov["evaluations"]):
        p.append("fewer than 10% of generated cases reached the scaling comparison")
    return p
