"""C03 - sparse outputs store no phantom coordinates."""
from __future__ import annotations

from hypothesis import strategies as st

from .. import cases as C
from .. import gen, kcheck, kprops, shrink
from ..runner import fail, result, run_stream

PROP = "C03"
LEVEL = "exploration"
RULE = (
    "generated cases with a compressed output level and sparse, often disjoint/empty input patterns (density "
    "classes 0-2 weighted up); evaluate runs on the IR abstract machine (capacity 2) and every stored level-prefix "
    "at every compressed output level must extend to a target coordinate in the independent set-semantics "
    "support (inputs = stored coordinate sets incl. explicit zeros, products = intersections, sums = unions, "
    "contraction = projection, literals everywhere). One-directional, as the property states. non-trivial = "
    "kernel produced AND support set neither empty nor full; distinct by case hash. Stored prefixes are read off the "
    "raw pos/crd arrays level by level, so a coordinate stored with nothing below it counts; the structure built by the "
    "stand-alone assemble kernel is held to the same oracle. Hollow stream: an all-compressed operand with coordinates "
    "stored above empty segments, partly contracted into a compressed output. Operator stream: Tensor "
    "operators (+ - * @, tensor or number operands) on operands generated as raw level structures (explicit zeros, "
    "stored coordinates with empty segments below), executed natively; the raw result is held to the same oracle."
)
ASSUMPTIONS = [
    "support is computed from the monomial expansion of the right-hand side; set semantics distribute, so this "
    "equals the structural reading of the unexpanded expression",
    "observed on the abstract machine's final heap (the native arrays are validated against it by C06)",
]


@st.composite
def cases(draw, tier):
    c = draw(gen.kernel_cases(max_leaves=draw(st.sampled_from([2, 3, 3, 4] if tier == "quick" else [2, 3, 3, 4, 5])), sparse_output_bias=True, min_target=1,
                              value_class="exact", density_choices=(0, 1, 2, 2, 3, 3, 3, 3, 4), literal_rate=5, p_sparse_in=8,
                              min_dim=2, order_choices=(1, 1, 2, 2, 2, 3)))
    c["capacity"] = 2
    return c


@st.composite
def zero_dim_cases(draw, tier):
    """Mostly dense operands under a compressed output, exactly one index of size 0: loops that never reach their
    terminal must not leave a written flag raised."""
    c = draw(gen.kernel_cases(max_leaves=draw(st.sampled_from([1, 2, 2, 3])), sparse_output_bias=True, min_target=1,
                              value_class="exact", literal_rate=5, p_sparse_in=draw(st.sampled_from([0, 2, 5])), min_dim=1,
                              order_choices=(1, 2, 2, 3), zero_dim10=9))
    c["capacity"] = 2
    return c


@st.composite
def hollow(draw, tier):
    c = draw(gen.hollow_cases())
    c["capacity"] = draw(st.sampled_from([2, None]))
    return c


def assemble_phantoms(case, obs, exp):
    """The structure built by the stand-alone assemble kernel is a compressed output too."""
    from .. import bridge
    from ..machine import Trap

    try:
        _m, structs, _rv = bridge.run_on_machine(obs["case"], obs["fns"]["assemble"])
    except Trap as t:
        return [fail(f"assemble-trap:{t.kind}", f"{kprops.ctx_desc(case)}: {t.msg}", **kcheck.trap_info(t))]
    errs, _stored, arrays, _n = C.decode_struct(structs[case["target"][0]], strict=True, structure_only=True)
    hard = [e for e in errs if e[0] != "vals-uninit"]
    if hard or arrays is None:
        return [fail(f"assemble-invalid:{(hard or errs)[0][0]}", f"{kprops.ctx_desc(case)}: {hard or errs}")]
    fails, _sz = kprops.phantom_fails(case, {}, exp, levels=arrays)
    return [dict(f, bucket="assemble-" + f["bucket"]) for f in fails]


def check(case, ctx=None):
    labels = set(gen.case_features(case))
    oname = case["target"][0]
    if "s" not in case["formats"][oname]:
        return result([], labels | {"dense_output_skipped"}, False, kcheck.case_id(case), None)
    obs = kprops.evaluate_at(case, case.get("capacity"), kinds=("evaluate", "assemble"))
    if obs["status"] != "ok":
        w = obs["why"] if isinstance(obs["why"], str) else obs["why"][0]
        return result([], labels | {f"{obs['status']}:{w}"}, False, kcheck.case_id(case), None)
    if obs["fails"]:
        return result(obs["fails"], labels | {"trap"}, False, kcheck.case_id(case), kcheck.sample_of(case))
    if obs["stored"] is None:
        e = obs["errs"][0]
        return result([fail(f"invalid:{e[0]}", f"{kprops.ctx_desc(case)}: {obs['errs']}")], labels, False,
                      kcheck.case_id(case), kcheck.sample_of(case))
    exp = kcheck.Expected(case)
    fails, sizes = kprops.phantom_fails(case, obs["stored"], exp, levels=obs["arrays"])
    if not fails:
        fails += assemble_phantoms(case, obs, exp)
        labels.add("assemble_structure_checked")
    nsup, total = sizes
    nontrivial = 0 < nsup < total
    labels.add("kernel_ok")
    if nsup == 0:
        labels.add("support_empty")
    elif nsup == total:
        labels.add("support_full")
    if len(obs["stored"]) < total:
        labels.add("output_sparser_than_dense")
    s = kcheck.sample_of(case)
    s["support"] = f"{nsup}/{total}"
    s["stored"] = len(obs["stored"])
    return result(fails, labels, nontrivial, kcheck.case_id(case), s)


# ------------------------------------------------------------------------------ operators
# Results of Tensor operators are "compressed outputs" too.  Operands are generated as raw level structures (not via
# from_dok), so explicit zeros and coordinates stored with an empty segment below them occur; the result is decoded
# from its raw arrays and its stored prefixes - read off pos/crd level by level - need structural support.
@st.composite
def operator_cases(draw, tier):
    op = draw(st.sampled_from(["*", "*", "+", "-", "@", "@", "@"]))

    def tensor(order, dims=None):
        dims = dims if dims is not None else tuple(draw(st.sampled_from([1, 2, 2, 3, 3, 4])) for _ in range(order))
        modes = tuple(draw(st.sampled_from("ssssd")) for _ in range(order))
        _m, ordering = C.fmt_parts(draw(gen.formats(order)))
        fmt = C.fmt_text(modes, ordering)
        stored = draw(gen.stored_tensor(dims, fmt, value_class="exact", density=draw(st.sampled_from([1, 1, 2, 2, 3]))))
        return {"tensor": {"dims": list(dims), "fmt": fmt, "stored": stored}}

    if op == "@" and draw(st.booleans()):
        # matrix @ vector / vector @ matrix built so that some stored matrix fibres meet none of the positions the vector
        # stores (the vector is between half full and full): those rows / columns have no structural support
        k = draw(st.sampled_from([3, 4, 4, 5, 6]))
        n = draw(st.sampled_from([2, 3, 4]))
        stored_v = sorted(draw(st.sets(st.integers(0, k - 1), min_size=(k + 1) // 2, max_size=k - 1)))
        missing = [q for q in range(k) if q not in stored_v]
        dok_m = {}
        for r in range(n):
            kind = draw(st.sampled_from(["miss", "miss", "hit", "both", "empty"]))
            cols = {"miss": draw(st.sets(st.sampled_from(missing), min_size=1)), "hit": draw(st.sets(st.sampled_from(stored_v), min_size=1)),
                    "both": set(missing[:1]) | set(stored_v[:1]), "empty": set()}[kind]
            for c in cols:
                dok_m[(r, c)] = float(draw(st.integers(1, 6))) / 2
        vec_first = draw(st.integers(0, 2)) == 0
        if vec_first:
            dok_m = {(c, r): v for (r, c), v in dok_m.items()}
            mdims = (k, n)
        else:
            mdims = (n, k)
        mmodes = tuple(draw(st.sampled_from("sssd")) for _ in range(2))
        _m, mord = C.fmt_parts(draw(gen.formats(2)))
        mfmt = C.fmt_text(mmodes, mord)
        ml, mv = C.levels_from_dok(dok_m, mdims, mmodes, mord)
        vl, vv = C.levels_from_dok({(q,): 1.0 + q for q in stored_v}, (k,), ("s",), (0,))
        M = {"tensor": {"dims": list(mdims), "fmt": mfmt, "stored": {"levels": ml, "vals": mv}}}
        V = {"tensor": {"dims": [k], "fmt": "s", "stored": {"levels": vl, "vals": vv}}}
        return {"op": "@", "left": V, "right": M} if vec_first else {"op": "@", "left": M, "right": V}
    if op == "@":
        oa, ob = draw(st.sampled_from([(1, 2), (2, 1), (2, 1), (2, 2)]))
        a = tensor(oa)
        inner = a["tensor"]["dims"][-1]
        b = tensor(ob, tuple([inner] + [draw(st.sampled_from([1, 2, 3])) for _ in range(ob - 1)]))
        return {"op": op, "left": a, "right": b}
    order = draw(st.sampled_from([1, 2, 2, 2, 3]))
    a = tensor(order)
    if op == "*" and draw(st.integers(0, 2)):  # (+ and - with a number give a dense result)
        v, ty = draw(st.sampled_from([(2, "int"), (0.5, "float"), (-1.5, "float"), (True, "bool"), (0, "int"), (3, "int")]))
        sc = {"scalar": v, "type": ty}
        return {"op": op, "left": a, "right": sc} if draw(st.booleans()) else {"op": op, "left": sc, "right": a}
    return {"op": op, "left": a, "right": tensor(order, tuple(a["tensor"]["dims"]))}


def op_setup(tier, seed, shard):
    from ..native.pool import Worker

    return {"worker": Worker(module="harness.native.worker2")}


def op_teardown(ctx):
    ctx["worker"].close()


def check_operator(call, ctx):
    from .. import bridge

    def leaf(spec, name, idx):
        if "tensor" in spec:
            return ["t", name, idx]
        v = spec["scalar"]
        return ["i", int(v)] if spec["type"] in ("int", "bool") else ["f", repr(float(v))]

    L, R = call["left"], call["right"]
    op = call["op"]
    if op == "@":
        la, lb = len(L["tensor"]["dims"]), len(R["tensor"]["dims"])
        ia = ["k"] if la == 1 else ["i", "k"]
        ib = ["k"] if lb == 1 else ["k", "j"]
        tgt = [x for x in ia + ib if x != "k"]
        tree = ["*", ["t", "a", ia], ["t", "b", ib]]
        idx_of = {"a": ia, "b": ib}
    else:
        T = L if "tensor" in L else R
        n = len(T["tensor"]["dims"])
        idx = [f"i{q}" for q in range(n)]
        tgt = idx
        tree = [op, leaf(L, "a", idx), leaf(R, "b", idx)]
        idx_of = {"a": idx, "b": idx}
    sizes, stored_sets = {}, {}
    for name, spec in (("a", L), ("b", R)):
        if "tensor" in spec:
            t = spec["tensor"]
            for i, d in zip(idx_of[name], t["dims"]):
                sizes[i] = d
            _m, ordering = C.fmt_parts(t["fmt"])
            stored_sets[name] = set(C.stored_coords(t["stored"]["levels"], t["stored"]["vals"], tuple(t["dims"]), ordering))
    d = f"{L.get('tensor', L)} {op} {R.get('tensor', R)}"
    labels = {f"operator:{op}"}
    rep = ctx["worker"].call({"op": "operators", "calls": [call]}, timeout=300)
    if "crash" in rep:
        return result([fail("operator-crashes-process", f"{d}: {rep['crash']}")], labels, False, None, None)
    if "error" in rep:
        raise bridge.HarnessError(rep["error"] + rep.get("trace", ""))
    r = rep["results"][0]
    if "error" in r:
        raise bridge.HarnessError(r["error"])
    if "raised" in r:
        return result([], labels | {f"operator-raised:{r['raised']}"}, False, None, None)  # refusals are C11's business
    raw = r["raw"]
    if raw["problem"] or C.validate_arrays(raw["dims"], raw["ordering"], raw["modes"], raw["levels"], len(raw["vals"])):
        return result([fail("operator-result-invalid", f"{d}: {raw['problem']}")], labels, False, None, None)
    if "s" not in raw["modes"]:
        return result([], labels | {"operator:dense_result"}, False, None, None)
    pseudo = {"target": ["o", tgt], "expr": tree, "sizes": sizes, "assignment": f"operator {op}",
              "formats": {"o": C.fmt_text(tuple(raw["modes"]), tuple(raw["ordering"]))}}

    class E:
        pass

    e = E()
    e.stored_sets = stored_sets
    stored = C.stored_coords(raw["levels"], raw["vals"], raw["dims"], raw["ordering"])
    fails, (nsup, total) = kprops.phantom_fails(pseudo, stored, e, levels=raw["levels"])
    fails = [dict(f, bucket="operator-" + f["bucket"]) for f in fails]
    empty_fiber = False
    for spec in (L, R):
        if "tensor" in spec:
            lv = [x for x in spec["tensor"]["stored"]["levels"] if x is not None]
            for up, low in zip(lv, lv[1:]):
                if len(up[1]) and any(low[0][q] == low[0][q + 1] for q in range(len(up[1]))) and len(low[0]) == len(up[1]) + 1:
                    empty_fiber = True
    if empty_fiber:
        labels.add("operand_with_stored_but_empty_fiber")
    labels.add("operator_ok")
    return result(fails, labels, 0 < nsup < total, None, {"call": d[:300], "support": f"{nsup}/{total}", "stored": len(stored)})


STREAMS = {"main": {"strategy": cases, "check": check}, "zero_dim": {"strategy": zero_dim_cases, "check": check},
           "hollow": {"strategy": hollow, "check": check},
           "operators": {"strategy": operator_cases, "check": check_operator, "setup": op_setup, "teardown": op_teardown}}


def shrink_case(case, bucket):
    pred = lambda c: any(f["bucket"] == bucket for f in check(c)["fails"])  # noqa: E731
    return shrink.minimise_kernel_case(case, pred)[0] if pred(case) else case


def replay(payload):
    if "op" in payload["case"]:
        ctx = op_setup("quick", 0, 0)
        try:
            return check_operator(payload["case"], ctx)["fails"]
        finally:
            op_teardown(ctx)
    return check(payload["case"])["fails"]


def run(chk):
    n = 2400 if chk.tier == "quick" else 60000
    chk.absorb(run_stream(__name__, "main", chk.tier, chk.seed, n), shrink=shrink_case)
    chk.absorb(run_stream(__name__, "zero_dim", chk.tier, chk.seed, n // 4), shrink=shrink_case)
    chk.absorb(run_stream(__name__, "hollow", chk.tier, chk.seed, n // 4), shrink=shrink_case)
    chk.absorb(run_stream(__name__, "operators", chk.tier, chk.seed, 480 if chk.tier == "quick" else 12000), kind="operator-call")


def health(cov):
    p = []
    if cov["classes"].get("kernel_ok", 0) and cov["distinct_nontrivial"] < 0.08 * cov["classes"]["kernel_ok"]:
        p.append("fewer than 8% of executed cases have a support set that is neither empty nor full")
    return p
