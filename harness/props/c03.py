"""C03 - sparse outputs store no phantom coordinates."""
from __future__ import annotations

from hypothesis import strategies as st

from .. import cases as C
from .. import gen, kcheck, kprops, shrink
from ..runner import fail, result, run_stream

PROP = "C03"
LEVEL = "exploration"
RULE = (
    "generated cases with a compressed output level and sparse, often disjoint/empty input patterns (density "
    "classes 0-2 weighted up); evaluate runs on the IR abstract machine (capacity 2) and every stored level-prefix "
    "at every compressed output level must extend to a target coordinate in the independent set-semantics "
    "support (inputs = stored coordinate sets incl. explicit zeros, products = intersections, sums = unions, "
    "contraction = projection, literals everywhere). One-directional, as the property states. non-trivial = "
    "kernel produced AND support set neither empty nor full; distinct by case hash."
)
ASSUMPTIONS = [
    "support is computed from the monomial expansion of the right-hand side; set semantics distribute, so this "
    "equals the structural reading of the unexpanded expression",
    "observed on the abstract machine's final heap (the native arrays are validated against it by C06)",
]


@st.composite
def cases(draw, tier):
    c = draw(gen.kernel_cases(max_leaves=draw(st.sampled_from([2, 3, 3, 4] if tier == "quick" else [2, 3, 3, 4, 5])), sparse_output_bias=True, min_target=1,
                              value_class="exact", density_choices=(0, 1, 2, 2, 3, 3, 3, 3, 4), literal_rate=5, p_sparse_in=8,
                              min_dim=2, order_choices=(1, 1, 2, 2, 2, 3)))
    c["capacity"] = 2
    return c


@st.composite
def zero_dim_cases(draw, tier):
    """Mostly dense operands under a compressed output, exactly one index of size 0: loops that never reach their
    terminal must not leave a written flag raised."""
    c = draw(gen.kernel_cases(max_leaves=draw(st.sampled_from([1, 2, 2, 3])), sparse_output_bias=True, min_target=1,
                              value_class="exact", literal_rate=5, p_sparse_in=draw(st.sampled_from([0, 2, 5])), min_dim=1,
                              order_choices=(1, 2, 2, 3), zero_dim10=9))
    c["capacity"] = 2
    return c


def check(case, ctx=None):
    labels = set(gen.case_features(case))
    oname = case["target"][0]
    if "s" not in case["formats"][oname]:
        return result([], labels | {"dense_output_skipped"}, False, kcheck.case_id(case), None)
    obs = kprops.evaluate_at(case, case.get("capacity"))
    if obs["status"] != "ok":
        w = obs["why"] if isinstance(obs["why"], str) else obs["why"][0]
        return result([], labels | {f"{obs['status']}:{w}"}, False, kcheck.case_id(case), None)
    if obs["fails"]:
        return result(obs["fails"], labels | {"trap"}, False, kcheck.case_id(case), kcheck.sample_of(case))
    if obs["stored"] is None:
        e = obs["errs"][0]
        return result([fail(f"invalid:{e[0]}", f"{kprops.ctx_desc(case)}: {obs['errs']}")], labels, False,
                      kcheck.case_id(case), kcheck.sample_of(case))
    exp = kcheck.Expected(case)
    fails, sizes = kprops.phantom_fails(case, obs["stored"], exp)
    nsup, total = sizes
    nontrivial = 0 < nsup < total
    labels.add("kernel_ok")
    if nsup == 0:
        labels.add("support_empty")
    elif nsup == total:
        labels.add("support_full")
    if len(obs["stored"]) < total:
        labels.add("output_sparser_than_dense")
    s = kcheck.sample_of(case)
    s["support"] = f"{nsup}/{total}"
    s["stored"] = len(obs["stored"])
    return result(fails, labels, nontrivial, kcheck.case_id(case), s)


STREAMS = {"main": {"strategy": cases, "check": check}, "zero_dim": {"strategy": zero_dim_cases, "check": check}}


def shrink_case(case, bucket):
    pred = lambda c: any(f["bucket"] == bucket for f in check(c)["fails"])  # noqa: E731
    return shrink.minimise_kernel_case(case, pred)[0] if pred(case) else case


def replay(payload):
    return check(payload["case"])["fails"]


def run(chk):
    n = 2400 if chk.tier == "quick" else 60000
    chk.absorb(run_stream(__name__, "main", chk.tier, chk.seed, n), shrink=shrink_case)
    chk.absorb(run_stream(__name__, "zero_dim", chk.tier, chk.seed, n // 4), shrink=shrink_case)


def health(cov):
    p = []
    if cov["classes"].get("kernel_ok", 0) and cov["distinct_nontrivial"] < 0.08 * cov["classes"]["kernel_ok"]:
        p.append("fewer than 8% of executed cases have a support set that is neither empty nor full")
    return p
