"""Harness-side expression trees (independent of tensora's AST classes).

tree := ["t", name, [idx, ...]] | ["i", int] | ["f", "literal text"] | [op, left, right], op in + - *
"""
from __future__ import annotations

from fractions import Fraction


def is_leaf(t):
    return t[0] in ("t", "i", "f")


def leaves(t):
    if is_leaf(t):
        yield t
    else:
        yield from leaves(t[1])
        yield from leaves(t[2])


def tensors(t):
    return [x for x in leaves(t) if x[0] == "t"]


def indexes_of(t):
    out = []
    for x in tensors(t):
        for i in x[2]:
            if i not in out:
                out.append(i)
    return out


def literal_value(t):
    if t[0] == "i":
        return Fraction(int(t[1]))
    return Fraction(float(t[1]))  # the double the text denotes


def text(t):
    """Print with exactly the parentheses a left-folding parser needs to rebuild this tree."""
    k = t[0]
    if k == "t":
        return f"{t[1]}({','.join(t[2])})"
    if k == "i":
        return str(t[1])
    if k == "f":
        return t[1]
    l, r = t[1], t[2]
    ls, rs = text(l), text(r)
    if k in "+-":
        if r[0] in "+-":
            rs = f"({rs})"
        return f"{ls} {k} {rs}"
    if l[0] in "+-":
        ls = f"({ls})"
    if r[0] in "+-*":
        rs = f"({rs})"
    return f"{ls} * {rs}"


def assignment_text(target, tree):
    return f"{target[0]}({','.join(target[1])}) = {text(tree)}"


def monomials(t):
    """Distribute * over +/-: list of (coef Fraction, [tensor leaves])."""
    k = t[0]
    if k in ("i", "f"):
        return [(literal_value(t), [])]
    if k == "t":
        return [(Fraction(1), [t])]
    if k == "+":
        return monomials(t[1]) + monomials(t[2])
    if k == "-":
        return monomials(t[1]) + [(-c, ts) for c, ts in monomials(t[2])]
    return [(c1 * c2, t1 + t2) for c1, t1 in monomials(t[1]) for c2, t2 in monomials(t[2])]


def size(t):
    return 1 if is_leaf(t) else 1 + size(t[1]) + size(t[2])


def depth(t):
    return 0 if is_leaf(t) else 1 + max(depth(t[1]), depth(t[2]))


def rename(t, tmap, imap):
    k = t[0]
    if k == "t":
        return ["t", tmap.get(t[1], t[1]), [imap.get(i, i) for i in t[2]]]
    if k in ("i", "f"):
        return list(t)
    return [k, rename(t[1], tmap, imap), rename(t[2], tmap, imap)]


def from_tensora(e):
    """tensora.expression.ast -> harness tree (used only by checks that start from text)."""
    from tensora.expression import ast as E

    if isinstance(e, E.Tensor):
        return ["t", e.name, list(e.indexes)]
    if isinstance(e, E.Integer):
        return ["i", e.value]
    if isinstance(e, E.Float):
        return ["f", repr(e.value)]
    op = {E.Add: "+", E.Subtract: "-", E.Multiply: "*"}[type(e)]
    return [op, from_tensora(e.left), from_tensora(e.right)]
