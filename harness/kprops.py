"""Deep checks over kernel cases shared by C02-C05: validity, phantom coordinates,
assemble/compute histories, memory safety."""
from __future__ import annotations

from . import bridge
from . import cases as C
from . import kcheck
from .machine import Machine, Trap
from .runner import fail

CAPACITIES = [1, 2, 3, None]


def ctx_desc(case, cap="-"):
    return f"{case['assignment']} {case['formats']} sizes={case['sizes']} cap={cap}"


def with_capacity(case, cap):
    c = dict(case)
    c["capacity"] = cap
    return c


def evaluate_at(case, cap, kinds=("evaluate",)):
    """Build the module at the given capacity and run evaluate on the machine.
    -> dict(status, fails, fns, m, st, stored, arrays, errs)"""
    c = with_capacity(case, cap)
    status, payload = kcheck.build(c, kinds)
    if status != "ok":
        return {"status": status, "why": payload, "fails": []}
    fns = bridge.functions_of(payload)
    fails, m, st, stored, arrays, errs = kcheck.machine_evaluate(c, fns["evaluate"])
    return {"status": "ok", "fails": fails, "fns": fns, "m": m, "st": st, "stored": stored, "arrays": arrays,
            "errs": errs, "case": c}


# ------------------------------------------------------------------------------------- C02
def validity_fails(obs, where="machine"):
    out = []
    for e in obs["errs"] or []:
        out.append(fail(f"invalid:{e[0]}", f"{where}: {ctx_desc(obs['case'], obs['case'].get('capacity'))}: {e}"))
    return out[:2]


# ------------------------------------------------------------------------------------- C03
def phantom_fails(case, stored, exp, levels=None):
    """stored prefixes at compressed output levels must have structural support.  With ``levels`` (the raw pos/crd
    arrays of the output) the stored prefixes are read off the structure itself, so a coordinate stored at an upper
    level with nothing stored below it is seen too."""
    from . import oracle as O

    oname = case["target"][0]
    modes, ordering = C.fmt_parts(case["formats"][oname])
    order = len(modes)
    if "s" not in modes:
        return [], None
    sup = O.support(case["target"], case["expr"], exp.stored_sets, case["sizes"])

    def lvl(c):
        return tuple(c[d] for d in ordering)

    sup_prefix = [set() for _ in range(order)]
    for c in sup:
        lc = lvl(c)
        for l in range(order):
            sup_prefix[l].add(lc[: l + 1])
    st_prefix = [set() for _ in range(order)]
    for c in stored:
        lc = lvl(c)
        for l in range(order):
            st_prefix[l].add(lc[: l + 1])
    if levels is not None:
        dims = [case["sizes"][i] for i in case["target"][1]]
        raw_prefix = C.stored_prefixes(levels, dims, ordering)
        st_prefix = [a | b for a, b in zip(st_prefix, raw_prefix)]
    ph = [(l, p) for l in range(order) if modes[l] == "s" for p in sorted(st_prefix[l]) if p not in sup_prefix[l]]
    fails = []
    if ph:
        fails.append(fail("phantom", f"{ctx_desc(case)}: stored level-prefixes without structural support {ph[:4]} "
                          f"(support has {len(sup)} coords)"))
    total = 1
    for i in case["target"][1]:
        total *= case["sizes"][i]
    return fails, (len(sup), total)


# ------------------------------------------------------------------------------- C04 / C05
def struct_arrays(st):
    """pos/crd contents of the output struct on the machine (None for NULL)."""
    out = []
    for kind, l, b in C.output_blocks(st):
        if kind == "vals":
            continue
        out.append((kind, l, None if b is None else b.tolist()))
    return out


def revalued(case, new_vals):
    c = dict(case)
    c["inputs"] = {nm: {"levels": s["levels"], "vals": list(new_vals[nm])} for nm, s in case["inputs"].items()}
    return c


def assemble_compute_history(case, cap, revaluations, check_values=True):
    """assemble once, then compute for the original values and each re-valuation, each compared with
    a fresh evaluate.  Returns (fails, info)."""
    info = {"computes": 0, "grow": 0, "loops": 0}
    c0 = with_capacity(case, cap)
    status, payload = kcheck.build(c0, ("evaluate", "assemble", "compute"))
    if status != "ok":
        return [], dict(info, status=status, why=payload)
    fns = bridge.functions_of(payload)
    d = ctx_desc(case, cap)
    # reference run
    f, m_e, st_e, stored_e, _arr, errs_e = kcheck.machine_evaluate(c0, fns["evaluate"])
    if f:
        return [dict(x, bucket="evaluate-" + x["bucket"]) for x in f], dict(info, status="trap")
    if stored_e is None:
        return [fail(f"evaluate-invalid:{errs_e[0][0]}", f"{d}: {errs_e}")], dict(info, status="invalid")
    info["loops"] = m_e.loop_iters
    info["grow"] = m_e.grow_reallocs
    # assemble
    m = Machine()
    try:
        m, structs, _rv = bridge.run_on_machine(c0, fns["assemble"], machine=m)
    except Trap as t:
        return [fail(f"assemble-trap:{t.kind}", f"{d}: {t.msg}", **kcheck.trap_info(t))], dict(info, status="trap")
    st_o = structs[case["target"][0]]
    info["grow"] += m.grow_reallocs
    if struct_arrays(st_o) != struct_arrays(st_e):
        return [fail("assemble-structure-differs", f"{d}: assemble {struct_arrays(st_o)} vs evaluate {struct_arrays(st_e)}")], dict(info, status="diff")
    # vals must be allocated and long enough for the structure (contents are compute's business)
    errs_a, _s, _a, nnz = C.decode_struct(st_o, strict=True)
    hard = [e for e in errs_a if e[0] not in ("vals-uninit",)]
    if hard:
        return [fail(f"assemble-invalid:{hard[0][0]}", f"{d}: {hard}")], dict(info, status="invalid")
    # freeze structure
    for kind, _l, b in C.output_blocks(st_o):
        if kind != "vals" and b is not None:
            b.readonly = True
    lv = st_o.fields["indices"].block.cells
    for l in range(len(lv)):
        lv[l].block.readonly = True
    m.frozen_alloc = True
    vals_block = st_o.fields["vals"].block
    fails = []
    rounds = [None] + list(revaluations)
    for r, nv in enumerate(rounds):
        cr = c0 if nv is None else revalued(c0, nv)
        try:
            bridge.run_on_machine(cr, fns["compute"], machine=m, output_struct=st_o)
        except Trap as t:
            fails.append(fail(f"compute-trap:{t.kind}", f"{d} round {r}: {t.msg}", **kcheck.trap_info(t)))
            break
        info["computes"] += 1
        if st_o.fields["vals"].block is not vals_block:
            fails.append(fail("compute-replaced-vals", f"{d} round {r}"))
            break
        errs_c, stored_c, _a, _n = C.decode_struct(st_o, strict=True)
        if stored_c is None or errs_c:
            fails.append(fail(f"compute-invalid:{errs_c[0][0]}", f"{d} round {r}: {errs_c}"))
            break
        if nv is None:
            stored_ref = stored_e
        else:
            f2, _m2, _st2, stored_ref, _a2, errs2 = kcheck.machine_evaluate(cr, fns["evaluate"])
            if f2 or stored_ref is None:
                fails.append(fail("evaluate-on-revalued-failed", f"{d} round {r}: {f2 or errs2}"))
                break
        if stored_c != stored_ref:
            diff = [(k, stored_c.get(k), stored_ref.get(k)) for k in sorted(set(stored_c) | set(stored_ref))
                    if stored_c.get(k) != stored_ref.get(k)][:3]
            fails.append(fail("compute-differs-from-evaluate", f"{d} round {r}: (coord, compute, evaluate) {diff}"))
            break
        if check_values:
            exp = kcheck.Expected(cr)
            vf = exp.value_fails(stored_c, f"compute round {r}")
            if vf:
                fails += [dict(x, bucket="compute-" + x["bucket"]) for x in vf]
                break
    return fails, dict(info, status="ok", nnz=nnz)
