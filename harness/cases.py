"""Kernel cases: a JSON-serialisable description of (assignment, formats, sizes, stored inputs)
and the plumbing that turns it into machine structs, real Tensors and decoded results.

Case layout (all plain JSON):
  {"assignment": "o(i,j) = a(i,k) * b(k,j)",
   "formats": {"o": "ds", "a": "d1s0", "b": "ss"},      # target first, then order of appearance
   "sizes": {"i": 2, "j": 3, "k": 2},
   "inputs": {"a": {"levels": [null, [[0,1,2],[0,1]]], "vals": [1.0, 0.5]}, ...}}

``levels`` is in *level* order (the storage order given by the format's ordering); ``null``
marks a dense level, ``[pos, crd]`` a compressed one.
"""
from __future__ import annotations

import hashlib
import itertools
import json
from fractions import Fraction

from .machine import NULL, UNINIT, Machine, Ptr, TensorStruct


# --------------------------------------------------------------------------- parsing helpers
def parse_case(case):
    """-> (Assignment, {name: Format}) using tensora's own parsers (needed to build a Problem).
    Formats are put in canonical order (target first, then order of appearance) whatever the order in the
    case dict, because replay files are written with sorted keys."""
    from tensora.expression import parse_assignment
    from tensora.format import parse_format

    asg = parse_assignment(case["assignment"]).unwrap()
    names = list(asg.variable_orders().keys())
    fmts = {n: parse_format(case["formats"][n]).unwrap() for n in names}
    return asg, fmts


def case_key(case):
    return hashlib.sha1(json.dumps(case, sort_keys=True).encode()).hexdigest()[:16]


def tensor_dims(asg, sizes, name):
    """Dimensions of tensor ``name`` (in index/dimension order) under the case's index sizes."""
    if name == asg.target.name:
        return tuple(sizes[i] for i in asg.target.indexes)
    first = asg.expression.variables()[name][0]
    return tuple(sizes[i] for i in first.indexes)


# ------------------------------------------------------------------------------ storage
def n_positions(levels, level_dims, upto):
    """Number of positions after ``upto`` levels."""
    n = 1
    for l in range(upto):
        if levels[l] is None:
            n *= level_dims[l]
        else:
            n = levels[l][0][-1] if levels[l][0] else 0
    return n


def stored_coords(levels, vals, dims, ordering):
    """Decode a level structure into {coordinate (dimension order): value}; explicit zeros kept."""
    order = len(dims)
    out = {}

    def rec(l, prefix, pos):
        if l == order:
            coord = [None] * order
            for lev, d in enumerate(ordering):
                coord[d] = prefix[lev]
            out[tuple(coord)] = vals[pos]
            return
        d = dims[ordering[l]]
        if levels[l] is None:
            for i in range(d):
                rec(l + 1, prefix + (i,), pos * d + i)
        else:
            p, c = levels[l]
            for q in range(p[pos], p[pos + 1]):
                rec(l + 1, prefix + (c[q],), q)

    rec(0, (), 0)
    return out


def stored_prefixes(levels, dims, ordering):
    """Per level, the set of stored level-order prefixes (a prefix counts as stored even when nothing is stored
    below it: a compressed coordinate whose lower segment is empty)."""
    order = len(dims)
    out = [set() for _ in range(order)]

    def rec(l, prefix, pos):
        if l == order:
            return
        d = dims[ordering[l]]
        if levels[l] is None:
            for i in range(d):
                out[l].add(prefix + (i,))
                rec(l + 1, prefix + (i,), pos * d + i)
        else:
            p, c = levels[l]
            for q in range(p[pos], p[pos + 1]):
                out[l].add(prefix + (c[q],))
                rec(l + 1, prefix + (c[q],), q)

    rec(0, (), 0)
    return out


def levels_from_dok(dok, dims, modes, ordering):
    """Build the canonical level structure storing exactly the coordinates in ``dok`` (plus what
    dense levels force).  Independent of tensora.  modes: sequence of 'd'/'s' in level order."""
    order = len(dims)
    ldims = [dims[d] for d in ordering]
    keys = sorted(tuple(c[d] for d in ordering) for c in dok)
    levels = []
    prefixes = [()]  # stored prefixes in position order
    for l in range(order):
        if modes[l] == "d":
            levels.append(None)
            prefixes = [p + (i,) for p in prefixes for i in range(ldims[l])]
        else:
            have = sorted({k[: l + 1] for k in keys})
            by_parent = {}
            for k in have:
                by_parent.setdefault(k[:l], []).append(k[l])
            pos = [0]
            crd = []
            newp = []
            for p in prefixes:
                cs = by_parent.get(p, [])
                crd.extend(cs)
                pos.append(len(crd))
                newp.extend(p + (c,) for c in cs)
            levels.append([pos, crd])
            prefixes = newp
    lk = {tuple(c[d] for d in ordering): v for c, v in dok.items()}
    vals = [float(lk.get(p, 0.0)) for p in prefixes]
    return levels, vals


def fmt_parts(fmt_text):
    """'d1s0' -> (('d','s'), (1,0)); 'ds' -> (('d','s'), (0,1)).  Harness-side, independent parser
    (only used on strings the harness itself produced)."""
    modes = []
    ordering = []
    i = 0
    while i < len(fmt_text):
        modes.append(fmt_text[i])
        i += 1
        j = i
        while j < len(fmt_text) and fmt_text[j].isdigit():
            j += 1
        if j > i:
            ordering.append(int(fmt_text[i:j]))
        i = j
    if not ordering:
        ordering = list(range(len(modes)))
    return tuple(modes), tuple(ordering)


def fmt_text(modes, ordering):
    if tuple(ordering) == tuple(range(len(modes))):
        return "".join(modes)
    return "".join(f"{m}{o}" for m, o in zip(modes, ordering))


# ---------------------------------------------------------------------- machine plumbing
def struct_from_levels(m, name, dims, ordering, modes, levels, vals, owner="input", writable=False):
    st = TensorStruct(name, writable=writable)
    st.fields["dimensions"] = Ptr(m.new_block("int", len(dims), "input", f"{name}.dimensions", list(dims)))
    lvl_ptrs = []
    for l, lv in enumerate(levels):
        if lv is None:
            lvl_ptrs.append(Ptr(m.new_block("ptr", 0, "input", f"{name}.indices[{l}]", [])))
        else:
            pos, crd = lv
            pp = NULL if pos is None else Ptr(m.new_block("int", len(pos), owner, f"{name}.pos{l}", list(pos)))
            cp = NULL if crd is None else Ptr(m.new_block("int", len(crd), owner, f"{name}.crd{l}", list(crd)))
            lvl_ptrs.append(
                Ptr(m.new_block("ptr", 2, "struct" if writable else "input", f"{name}.indices[{l}]", [pp, cp]))
            )
    st.fields["indices"] = Ptr(m.new_block("ptr", len(levels), "input", f"{name}.indices", lvl_ptrs))
    st.fields["vals"] = (
        NULL if vals is None else Ptr(m.new_block("float", len(vals), owner, f"{name}.vals", [float(v) for v in vals]))
    )
    st.meta = (tuple(dims), tuple(ordering), tuple(modes))
    return st


def input_struct(m, name, dims, fmt_text_, stored):
    modes, ordering = fmt_parts(fmt_text_)
    return struct_from_levels(m, name, dims, ordering, modes, stored["levels"], stored["vals"], owner="input")


def empty_output_struct(m, name, dims, fmt_text_):
    modes, ordering = fmt_parts(fmt_text_)
    levels = [None if md == "d" else (None, None) for md in modes]
    return struct_from_levels(m, name, dims, ordering, modes, levels, None, owner="struct", writable=True)


def output_blocks(st):
    """[(kind, level, Block|None)] for pos/crd/vals of a struct on the machine."""
    dims, ordering, modes = st.meta
    out = []
    lv = st.fields["indices"].block.cells
    for l, md in enumerate(modes):
        if md == "s":
            cells = lv[l].block.cells
            out.append(("pos", l, cells[0].block))
            out.append(("crd", l, cells[1].block))
    out.append(("vals", None, st.fields["vals"].block))
    return out


def decode_struct(st, strict=True, structure_only=False):
    """Validity oracle of C02 on the machine heap + decoding.

    Returns (errors, stored {coord: float}, arrays [None | (pos, crd)] per level, nnz).
    strict: exact block lengths for pos (parent+1) and crd (pos[-1]); vals >= nnz.
    """
    dims, ordering, modes = st.meta
    order = len(dims)
    errs = []
    lvls = st.fields["indices"].block.cells
    n = 1
    arrays = []
    for l in range(order):
        d = dims[ordering[l]]
        if modes[l] == "d":
            n *= d
            arrays.append(None)
            continue
        lb = lvls[l].block.cells
        pb, cb = lb[0].block, lb[1].block
        if lb[0].off != 0 or lb[1].off != 0:
            errs.append(("interior-pointer", l))
            return errs, None, None, None
        if pb is None:
            errs.append(("pos-null", l))
            return errs, None, None, None
        if not pb.live:
            errs.append(("pos-dead", l))
            return errs, None, None, None
        if pb.etype != "int":
            errs.append(("pos-type", l))
            return errs, None, None, None
        if pb.length < n + 1:
            errs.append(("pos-short", l, pb.length, n + 1))
            return errs, None, None, None
        if strict and pb.length != n + 1:
            errs.append(("pos-len", l, pb.length, n + 1))
        pos = pb.tolist(n + 1)
        if any(x is UNINIT for x in pos):
            errs.append(("pos-uninit", l, [x if x is not UNINIT else "?" for x in pos]))
            return errs, None, None, None
        if pos[0] != 0:
            errs.append(("pos0", l, pos[0]))
        if any(a > b for a, b in zip(pos, pos[1:])):
            errs.append(("pos-decreasing", l, pos))
            return errs, None, None, None
        if pos[0] < 0:
            return errs, None, None, None
        nn = pos[-1]
        if cb is None:
            if nn != 0:
                errs.append(("crd-null", l))
                return errs, None, None, None
            crd = []
        else:
            if not cb.live:
                errs.append(("crd-dead", l))
                return errs, None, None, None
            if cb.etype != "int":
                errs.append(("crd-type", l))
                return errs, None, None, None
            if cb.length < nn:
                errs.append(("crd-short", l, cb.length, nn))
                return errs, None, None, None
            if strict and cb.length != nn:
                errs.append(("crd-len", l, cb.length, nn))
            crd = cb.tolist(nn)
            if any(x is UNINIT for x in crd):
                errs.append(("crd-uninit", l))
                return errs, None, None, None
        for a, b in zip(pos, pos[1:]):
            seg = crd[a:b]
            if any(x >= y for x, y in zip(seg, seg[1:])):
                errs.append(("crd-not-increasing", l, seg))
            if any(not (0 <= x < d) for x in seg):
                errs.append(("crd-out-of-range", l, seg, d))
        arrays.append((pos, crd))
        n = nn
    if structure_only:
        return errs, None, arrays, n
    vp = st.fields["vals"]
    if vp.block is None:
        if n != 0:
            errs.append(("vals-null", n))
            return errs, None, None, None
        vals = []
    else:
        vb = vp.block
        if vp.off != 0:
            errs.append(("interior-pointer", "vals"))
            return errs, None, None, None
        if not vb.live:
            errs.append(("vals-dead",))
            return errs, None, None, None
        if vb.etype != "float":
            errs.append(("vals-type",))
            return errs, None, None, None
        if vb.length < n:
            errs.append(("vals-short", vb.length, n))
            return errs, None, None, None
        vals = vb.tolist(n)
        if any(x is UNINIT for x in vals):
            errs.append(("vals-uninit", [k for k, x in enumerate(vals) if x is UNINIT]))
            return errs, None, None, None
    if any(e[0] in ("crd-not-increasing", "crd-out-of-range") for e in errs):
        return errs, None, arrays, n
    levels = [None if a is None else a for a in arrays]
    stored = stored_coords(levels, vals, dims, ordering)
    return errs, stored, arrays, n


def validate_arrays(dims, ordering, modes, levels, vals_len):
    """Validity oracle of C02 on plain lists (native results; no exact-length information beyond
    what was read).  levels: per level None or (pos, crd)."""
    errs = []
    n = 1
    for l, lv in enumerate(levels):
        d = dims[ordering[l]]
        if modes[l] == "d":
            n *= d
            continue
        pos, crd = lv
        if len(pos) != n + 1:
            errs.append(("pos-len", l, len(pos), n + 1))
            return errs
        if pos[0] != 0:
            errs.append(("pos0", l, pos[0]))
        if any(a > b for a, b in zip(pos, pos[1:])):
            errs.append(("pos-decreasing", l, pos))
            return errs
        if len(crd) < pos[-1]:
            errs.append(("crd-short", l))
            return errs
        for a, b in zip(pos, pos[1:]):
            seg = crd[a:b]
            if any(x >= y for x, y in zip(seg, seg[1:])):
                errs.append(("crd-not-increasing", l, seg))
            if any(not (0 <= x < d) for x in seg):
                errs.append(("crd-out-of-range", l, seg, d))
        n = pos[-1]
    if vals_len < n:
        errs.append(("vals-short", vals_len, n))
    return errs


# ------------------------------------------------------------------ real tensors (native)
def tensor_from_stored(dims, fmt_text_, stored):
    """Real tensora Tensor from a level structure (through taco_structure_to_cffi)."""
    from tensora import Tensor
    from tensora.compile import taco_structure_to_cffi

    modes, ordering = fmt_parts(fmt_text_)
    indices = [[] if lv is None else [list(lv[0]), list(lv[1])] for lv in stored["levels"]]
    ct = taco_structure_to_cffi(
        indices,
        [float(v) for v in stored["vals"]],
        mode_types=tuple(0 if m == "d" else 1 for m in modes),
        dimensions=tuple(dims),
        mode_ordering=tuple(ordering),
    )
    return Tensor(ct)


def raw_of_tensor(t):
    """Read a real Tensor through its raw cffi arrays only -> dict(dims, ordering, modes, levels, vals)."""
    from tensora.compile import tensor_cdefs

    ct = t.cffi_tensor
    order = ct.order
    dims = tuple(ct.dimensions[0:order])
    ordering = tuple(ct.mode_ordering[0:order])
    modes = tuple("d" if int(m) == 0 else "s" for m in ct.mode_types[0:order])
    idx = tensor_cdefs.cast("int32_t***", ct.indices)
    vals_p = tensor_cdefs.cast("double*", ct.vals)
    levels = []
    n = 1
    problem = None
    for l in range(order):
        if modes[l] == "d":
            levels.append(None)
            n *= dims[ordering[l]]
        else:
            if idx[l][0] == tensor_cdefs.NULL:
                problem = f"pos-null level {l}"
                break
            pos = list(idx[l][0][0 : n + 1])
            if any(a > b for a, b in zip(pos, pos[1:])) or pos[0] != 0 or pos[-1] > 10**7:
                levels.append([pos, []])
                problem = f"pos-invalid level {l}: {pos}"
                break
            if pos[-1] > 0 and idx[l][1] == tensor_cdefs.NULL:
                problem = f"crd-null level {l}"
                break
            crd = list(idx[l][1][0 : pos[-1]]) if pos[-1] > 0 else []
            levels.append([pos, crd])
            n = pos[-1]
    vals = None
    if problem is None:
        if n > 0 and vals_p == tensor_cdefs.NULL:
            problem = "vals-null"
        else:
            vals = list(vals_p[0:n]) if n > 0 else []
    return {"dims": dims, "ordering": ordering, "modes": modes, "levels": levels, "vals": vals, "problem": problem}


def exact(v):
    return Fraction(v)


def all_coords(dims):
    return itertools.product(*[range(d) for d in dims])
