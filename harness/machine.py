"""IR abstract machine: a memory-safe interpreter for ``tensora.ir.ast``.

C semantics made checkable (DESIGN.md §2.3).  Values: int32 (range-checked),
double (Python float), bool, typed pointers (block, offset), NULL.  The heap is
a list of blocks with per-cell initialisation bits, an owner, a liveness flag
and a read-only flag.  Every violation raises :class:`Trap` with a ``kind``.

Nothing here imports tensora except the IR node classes, which are resolved
lazily so that the module can be pointed at any source tree.
"""
from __future__ import annotations

INT_MIN, INT_MAX = -(2**31), 2**31 - 1
UNINIT = None  # cell value for "never written"; real values are never None


class Trap(Exception):
    def __init__(self, kind, msg="", node=None):
        super().__init__(f"{kind}: {msg}")
        self.kind = kind
        self.msg = msg
        self.node = node


class Block:
    __slots__ = ("id", "etype", "cells", "length", "owner", "live", "readonly", "role")

    def __init__(self, id, etype, length, owner, role="", init=None):
        self.id = id
        self.etype = etype  # 'int' | 'float' | 'ptr'
        self.length = length
        self.owner = owner  # 'input' | 'struct' | 'kernel'
        self.live = True
        self.readonly = False
        self.role = role
        self.cells = {} if init is None else dict(enumerate(init))

    def tolist(self, n=None):
        n = self.length if n is None else n
        return [self.cells.get(k, UNINIT) for k in range(n)]


class Ptr:
    __slots__ = ("block", "off")

    def __init__(self, block, off=0):
        self.block = block
        self.off = off

    def __eq__(self, o):
        return isinstance(o, Ptr) and self.block is o.block and self.off == o.off

    def __hash__(self):
        return hash((id(self.block), self.off))

    def __repr__(self):
        return f"Ptr({self.block.role if self.block else None}+{self.off})"


NULL = Ptr(None, 0)


class TensorStruct:
    """A taco_tensor_t on the machine: fields dimensions / indices / vals (Ptr)."""

    def __init__(self, name, writable=False):
        self.name = name
        self.fields = {}
        self.writable = writable  # only the output's ``vals`` field may be assigned
        self.meta = None


class Machine:
    def __init__(self, budget=10**6):
        self.blocks = []
        self.steps = 0
        self.budget = budget
        self.loop_iters = 0
        self.loop_counts = {}  # id(Loop node) -> iterations
        self.branch_arms = set()  # (id(Branch), bool)
        self.loads = 0
        self.stores = 0
        self.allocs = 0
        self.reallocs = 0
        self.grow_reallocs = 0
        self.access = set()
        self.log_access = False
        self.frozen_alloc = False
        self.peak_cells = 0
        self.nonfinite_seen = False  # some floating-point operation produced inf or nan
        self.executed = set()  # ids of executed statement nodes (optional)
        self.log_executed = False

    def new_block(self, etype, length, owner, role="", init=None):
        b = Block(len(self.blocks), etype, length, owner, role, init)
        self.blocks.append(b)
        return b

    def load(self, p, node=None):
        if not isinstance(p, Ptr):
            raise Trap("type", f"load from non-pointer {p!r}", node)
        b = p.block
        if b is None:
            raise Trap("null-deref", "load", node)
        if not b.live:
            raise Trap("use-after-free", f"load {b.role}", node)
        if not (0 <= p.off < b.length):
            raise Trap("oob-read", f"{b.role}[{p.off}] len {b.length}", node)
        v = b.cells.get(p.off, UNINIT)
        if v is UNINIT:
            raise Trap("uninit-read", f"{b.role}[{p.off}]", node)
        self.loads += 1
        if self.log_access:
            self.access.add((b.role, p.off, "r"))
        return v

    def store(self, p, v, node=None):
        if not isinstance(p, Ptr):
            raise Trap("type", f"store to non-pointer {p!r}", node)
        b = p.block
        if b is None:
            raise Trap("null-deref", "store", node)
        if not b.live:
            raise Trap("use-after-free", f"store {b.role}", node)
        if not (0 <= p.off < b.length):
            raise Trap("oob-write", f"{b.role}[{p.off}] len {b.length}", node)
        if b.owner == "input" or b.readonly:
            raise Trap("write-protected", f"{b.role}[{p.off}]", node)
        if b.etype == "float":
            if isinstance(v, bool) or not isinstance(v, (int, float)):
                raise Trap("type", f"store {v!r} into double cell", node)
            v = float(v)
        elif b.etype == "int":
            if isinstance(v, bool) or not isinstance(v, int):
                raise Trap("type", f"store {v!r} into int cell", node)
        elif b.etype == "ptr":
            if not isinstance(v, Ptr):
                raise Trap("type", f"store {v!r} into pointer cell", node)
        self.stores += 1
        if self.log_access:
            self.access.add((b.role, p.off, "w"))
        b.cells[p.off] = v


class _Return(Exception):
    def __init__(self, v):
        self.v = v


class Frame:
    __slots__ = ("scopes",)

    def __init__(self):
        self.scopes = [{}]

    def lookup(self, name, node=None):
        for s in reversed(self.scopes):
            if name in s:
                return s[name]
        raise Trap("undeclared", name, node)

    def declare(self, name, ty, node=None):
        if name in self.scopes[-1]:
            raise Trap("redeclared", name, node)
        slot = [ty, UNINIT]
        self.scopes[-1][name] = slot
        return slot


def _etype(t, T):
    if isinstance(t, T.Integer):
        return "int"
    if isinstance(t, T.Float):
        return "float"
    if isinstance(t, T.Boolean):
        return "bool"
    if isinstance(t, T.Pointer):
        return "ptr"
    return str(t)


class Interp:
    """Executes one FunctionDefinition on a Machine."""

    def __init__(self, machine, output_name=None, scoping="c"):
        from tensora.ir import ast as A
        from tensora.ir import types as T

        self.A = A
        self.T = T
        self.m = machine
        self.output_name = output_name
        self.scoping = scoping  # 'c' (block scopes as printed C) or 'hoisted' (LLVM allocas)
        self.return_value = None
        self._expr = {
            A.Variable: self.e_variable,
            A.AttributeAccess: self.e_attr,
            A.ArrayIndex: self.e_index,
            A.IntegerLiteral: self.e_int,
            A.FloatLiteral: self.e_float,
            A.BooleanLiteral: self.e_bool,
            A.Add: self.e_arith,
            A.Subtract: self.e_arith,
            A.Multiply: self.e_arith,
            A.Equal: self.e_cmp,
            A.NotEqual: self.e_cmp,
            A.GreaterThan: self.e_cmp,
            A.LessThan: self.e_cmp,
            A.GreaterThanOrEqual: self.e_cmp,
            A.LessThanOrEqual: self.e_cmp,
            A.And: self.e_and,
            A.Or: self.e_or,
            A.Max: self.e_minmax,
            A.Min: self.e_minmax,
            A.BooleanToInteger: self.e_b2i,
            A.ArrayAllocate: self.e_alloc,
            A.ArrayReallocate: self.e_realloc,
        }
        self._stmt = {
            A.Block: self.s_block,
            A.Declaration: self.s_decl,
            A.DeclarationAssignment: self.s_declassign,
            A.Assignment: self.s_assign,
            A.Branch: self.s_branch,
            A.Loop: self.s_loop,
            A.Return: self.s_return,
        }

    # ------------------------------------------------------------------ run
    def run(self, fn, args):
        f = Frame()
        if len(fn.parameters) != len(args):
            raise Trap("arity", f"{len(fn.parameters)} parameters, {len(args)} arguments")
        for decl, a in zip(fn.parameters, args):
            f.scopes[0][decl.name.name] = [decl.type, a]
        try:
            self.stmt(fn.body, f)
        except _Return as r:
            self.return_value = r.v
            return r.v
        raise Trap("no-return", "function fell off its end")

    def tick(self, node):
        m = self.m
        m.steps += 1
        if m.steps > m.budget:
            raise Trap("runaway", f"> {m.budget} steps", node)

    # ---------------------------------------------------------- expressions
    def expr(self, e, f):
        try:
            h = self._expr[type(e)]
        except KeyError:
            raise Trap("unknown-expr", type(e).__name__, e) from None
        return h(e, f)

    def e_variable(self, e, f):
        v = f.lookup(e.name, e)[1]
        if v is UNINIT:
            raise Trap("uninit-var", e.name, e)
        return v

    def e_attr(self, e, f):
        base = self.expr(e.target, f)
        if not isinstance(base, TensorStruct):
            raise Trap("type", "attribute of non-struct", e)
        try:
            return base.fields[e.attribute]
        except KeyError:
            raise Trap("type", f"no field {e.attribute}", e) from None

    def _elem_ptr(self, e, f):
        base = self.expr(e.target, f)
        i = self.expr(e.index, f)
        if not isinstance(base, Ptr):
            raise Trap("type", f"index of non-pointer {base!r}", e)
        if isinstance(i, bool) or not isinstance(i, int):
            raise Trap("type", f"non-int index {i!r}", e)
        return Ptr(base.block, base.off + i)

    def e_index(self, e, f):
        return self.m.load(self._elem_ptr(e, f), e)

    def e_int(self, e, f):
        v = e.value
        if isinstance(v, bool) or not isinstance(v, int):
            raise Trap("type", f"IntegerLiteral({v!r})", e)
        if not (INT_MIN <= v <= INT_MAX):
            raise Trap("int-literal-range", str(v), e)
        return v

    def e_float(self, e, f):
        return float(e.value)

    def e_bool(self, e, f):
        return bool(e.value)

    def e_arith(self, e, f):
        A = self.A
        l = self.expr(e.left, f)
        r = self.expr(e.right, f)
        t = type(e)
        if isinstance(l, Ptr):
            if t is A.Add and isinstance(r, int) and not isinstance(r, bool):
                return Ptr(l.block, l.off + r)
            raise Trap("type", "pointer arithmetic", e)
        if isinstance(l, bool) or isinstance(r, bool) or isinstance(r, Ptr):
            raise Trap("type", f"arithmetic on {l!r}, {r!r}", e)
        if not isinstance(l, (int, float)) or not isinstance(r, (int, float)):
            raise Trap("type", f"arithmetic on {l!r}, {r!r}", e)
        if isinstance(l, int) and isinstance(r, int):
            v = l + r if t is A.Add else (l - r if t is A.Subtract else l * r)
            if not (INT_MIN <= v <= INT_MAX):
                raise Trap("int-overflow", f"{l} {t.__name__} {r}", e)
            return v
        l = float(l)
        r = float(r)
        v = l + r if t is A.Add else (l - r if t is A.Subtract else l * r)
        if v != v or v in (float("inf"), float("-inf")):
            self.m.nonfinite_seen = True
        return v

    def e_cmp(self, e, f):
        A = self.A
        l = self.expr(e.left, f)
        r = self.expr(e.right, f)
        ok = (int, float)
        if isinstance(l, bool) or isinstance(r, bool) or not isinstance(l, ok) or not isinstance(r, ok):
            raise Trap("type", f"compare {l!r} {r!r}", e)
        t = type(e)
        if t is A.Equal:
            return l == r
        if t is A.NotEqual:
            return l != r
        if t is A.GreaterThan:
            return l > r
        if t is A.LessThan:
            return l < r
        if t is A.GreaterThanOrEqual:
            return l >= r
        return l <= r

    def e_and(self, e, f):
        l = self.expr(e.left, f)
        if not isinstance(l, bool):
            raise Trap("type", "and", e)
        if not l:
            return False
        r = self.expr(e.right, f)
        if not isinstance(r, bool):
            raise Trap("type", "and", e)
        return r

    def e_or(self, e, f):
        l = self.expr(e.left, f)
        if not isinstance(l, bool):
            raise Trap("type", "or", e)
        if l:
            return True
        r = self.expr(e.right, f)
        if not isinstance(r, bool):
            raise Trap("type", "or", e)
        return r

    def e_minmax(self, e, f):
        l = self.expr(e.left, f)
        r = self.expr(e.right, f)
        if isinstance(l, bool) or isinstance(r, bool) or not isinstance(l, int) or not isinstance(r, int):
            raise Trap("type", "min/max on non-int", e)
        return max(l, r) if type(e) is self.A.Max else min(l, r)

    def e_b2i(self, e, f):
        v = self.expr(e.expression, f)
        if not isinstance(v, bool):
            raise Trap("type", "BooleanToInteger of non-bool", e)
        return int(v)

    _SIZE = {"int": 4, "float": 8, "bool": 1, "ptr": 8}

    def _alloc_size(self, e, f):
        n = self.expr(e.n_elements, f)
        if isinstance(n, bool) or not isinstance(n, int):
            raise Trap("type", "allocation size", e)
        et = _etype(e.element_type, self.T)
        if n < 0:
            raise Trap("bad-alloc", f"negative size {n}", e)
        if n * self._SIZE.get(et, 8) > 2**40:
            raise Trap("bad-alloc", f"huge size {n}", e)
        return n, et

    def e_alloc(self, e, f):
        m = self.m
        n, et = self._alloc_size(e, f)
        if m.frozen_alloc:
            raise Trap("alloc-forbidden", "malloc while allocation is frozen", e)
        m.allocs += 1
        m.peak_cells = max(m.peak_cells, n)
        return Ptr(m.new_block(et, n, "kernel", role=f"alloc{m.allocs}"), 0)

    def e_realloc(self, e, f):
        m = self.m
        old = self.expr(e.old, f)
        n, et = self._alloc_size(e, f)
        if not isinstance(old, Ptr):
            raise Trap("type", "realloc of non-pointer", e)
        if m.frozen_alloc:
            raise Trap("alloc-forbidden", "realloc while allocation is frozen", e)
        m.reallocs += 1
        ob = old.block
        if ob is not None:
            if old.off != 0:
                raise Trap("realloc-interior", ob.role, e)
            if not ob.live:
                raise Trap("double-free", f"realloc {ob.role}", e)
            if ob.owner != "kernel":
                raise Trap("realloc-foreign", ob.role, e)
            if ob.etype != et:
                raise Trap("type", f"realloc {ob.etype} as {et}", e)
            if n > ob.length:
                m.grow_reallocs += 1
        if n == 0:
            if ob is not None:
                ob.live = False
            return NULL
        m.peak_cells = max(m.peak_cells, n)
        nb = m.new_block(et, n, "kernel", role=(ob.role if ob is not None else f"alloc{m.allocs}r"))
        if ob is not None:
            for k, v in ob.cells.items():
                if k < n:
                    nb.cells[k] = v
            ob.live = False
        return Ptr(nb, 0)

    # ----------------------------------------------------------- statements
    def stmt(self, s, f):
        self.tick(s)
        if self.m.log_executed:
            self.m.executed.add(id(s))
        h = self._stmt.get(type(s))
        if h is None:
            if isinstance(s, self.A.Expression):
                self.expr(s, f)
                return
            raise Trap("unknown-stmt", type(s).__name__, s)
        h(s, f)

    def s_block(self, s, f):
        for x in s.statements:
            self.stmt(x, f)

    def _coerce(self, ty, v, node):
        T = self.T
        if isinstance(ty, T.Float):
            if isinstance(v, bool) or not isinstance(v, (int, float)):
                raise Trap("type", f"assign {v!r} to double", node)
            return float(v)
        if isinstance(ty, T.Integer):
            if isinstance(v, bool) or not isinstance(v, int):
                raise Trap("type", f"assign {v!r} to int", node)
            return v
        if isinstance(ty, T.Boolean):
            if not isinstance(v, bool):
                raise Trap("type", f"assign {v!r} to bool", node)
            return v
        if isinstance(ty, T.Pointer):
            if not isinstance(v, (Ptr, TensorStruct)):
                raise Trap("type", f"assign {v!r} to pointer", node)
            return v
        return v

    def _declare(self, name, ty, node, f):
        if self.scoping == "hoisted":
            # LLVM back end: one alloca per name for the whole function
            s0 = f.scopes[0]
            if name in s0:
                if _etype(s0[name][0], self.T) != _etype(ty, self.T):
                    raise Trap("redeclared", f"{name} with another type", node)
                return s0[name]
            slot = [ty, UNINIT]
            s0[name] = slot
            return slot
        return f.declare(name, ty, node)

    def s_decl(self, s, f):
        self._declare(s.name.name, s.type, s, f)

    def s_declassign(self, s, f):
        v = self.expr(s.value, f)
        slot = self._declare(s.target.name.name, s.target.type, s, f)
        slot[1] = self._coerce(s.target.type, v, s)

    def s_assign(self, s, f):
        A = self.A
        v = self.expr(s.value, f)
        t = s.target
        if isinstance(t, A.Variable):
            slot = f.lookup(t.name, t)
            slot[1] = self._coerce(slot[0], v, s)
        elif isinstance(t, A.ArrayIndex):
            self.m.store(self._elem_ptr(t, f), v, s)
        elif isinstance(t, A.AttributeAccess):
            base = self.expr(t.target, f)
            if not isinstance(base, TensorStruct):
                raise Trap("type", "attribute of non-struct", s)
            if not base.writable or t.attribute != "vals":
                raise Trap("write-protected", f"{base.name}->{t.attribute}", s)
            if not isinstance(v, Ptr):
                raise Trap("type", "vals must be a pointer", s)
            if self.m.frozen_alloc and v != base.fields["vals"]:
                raise Trap("write-protected", f"{base.name}->vals replaced", s)
            base.fields["vals"] = v
        else:
            raise Trap("type", f"not assignable {type(t).__name__}", s)

    def _scoped(self, s, f):
        if self.scoping == "hoisted":
            self.stmt(s, f)
            return
        f.scopes.append({})
        try:
            self.stmt(s, f)
        finally:
            f.scopes.pop()

    def s_branch(self, s, f):
        c = self.expr(s.condition, f)
        if not isinstance(c, bool):
            raise Trap("type", "branch condition", s)
        self.m.branch_arms.add((id(s), c))
        self._scoped(s.if_true if c else s.if_false, f)

    def s_loop(self, s, f):
        m = self.m
        key = id(s)
        while True:
            c = self.expr(s.condition, f)
            if not isinstance(c, bool):
                raise Trap("type", "loop condition", s)
            if not c:
                break
            m.loop_iters += 1
            m.loop_counts[key] = m.loop_counts.get(key, 0) + 1
            self.tick(s)
            self._scoped(s.body, f)

    def s_return(self, s, f):
        raise _Return(self.expr(s.value, f))


def count_statements(node, A=None):
    """Number of statement nodes in a function body (for the step budget)."""
    if A is None:
        from tensora.ir import ast as A
    if isinstance(node, A.Block):
        return 1 + sum(count_statements(x, A) for x in node.statements)
    if isinstance(node, A.Branch):
        return 1 + count_statements(node.if_true, A) + count_statements(node.if_false, A)
    if isinstance(node, A.Loop):
        return 2 + count_statements(node.body, A)
    return 1
