"""Hand-written IR snippets with known outcomes: every trap class of the abstract machine has a positive and a
negative example (DESIGN.md §2.3 (ii)).  Run at the start of C05; a wrong outcome is a harness error (exit 2)."""
from __future__ import annotations

from .machine import Interp, Machine, Ptr, TensorStruct, Trap


def _run(stmts, ints=(3, 0, 0, 0), floats=(1.5, 2.0), out_len=4, writable=True, budget=2000, frozen=False):
    from tensora.ir import ast as A
    from tensora.ir import types as T

    m = Machine(budget=budget)
    t = TensorStruct("t", writable=writable)
    t.fields["dimensions"] = Ptr(m.new_block("int", len(ints), "input", "t.dimensions", list(ints)))
    t.fields["vals"] = Ptr(m.new_block("float", len(floats) + out_len, "struct", "t.vals", list(floats)))
    m.frozen_alloc = frozen
    fn = A.FunctionDefinition(A.Variable("f"), [A.Declaration(A.Variable("t"), T.Pointer(T.tensor))], T.integer,
                              A.Block(list(stmts)))
    rv = Interp(m, output_name="t").run(fn, [t])
    return rv, m, t


def cases():
    from tensora.ir import ast as A
    from tensora.ir import types as T

    t = A.Variable("t")
    x = A.Variable("x")
    p = A.Variable("p")
    ret = A.Return(A.IntegerLiteral(0))
    I, F = T.integer, T.float
    vals = t.attr("vals")
    dims = t.attr("dimensions")
    yield "ok-store-load", [vals.idx(2).assign(vals.idx(0).plus(1)), ret], None
    yield "oob-read", [x.declare(F).assign(vals.idx(6)), ret], "oob-read"
    yield "oob-read-negative", [x.declare(F).assign(vals.idx(A.Subtract(A.IntegerLiteral(0), A.IntegerLiteral(1)))), ret], "oob-read"
    yield "uninit-read", [x.declare(F).assign(vals.idx(3)), ret], "uninit-read"
    yield "oob-write", [vals.idx(6).assign(1.0), ret], "oob-write"
    yield "write-input", [dims.idx(0).assign(1), ret], "write-protected"
    yield "int-overflow", [x.declare(I).assign(A.Multiply(A.IntegerLiteral(65536), A.IntegerLiteral(65536))), ret], "int-overflow"
    yield "int-max-ok", [x.declare(I).assign(A.Add(A.IntegerLiteral(2**31 - 2), A.IntegerLiteral(1))), ret], None
    yield "int-literal-range", [x.declare(I).assign(A.IntegerLiteral(2**31)), ret], "int-literal-range"
    yield "uninit-var", [x.declare(I), vals.idx(2).assign(x), ret], "uninit-var"
    yield "undeclared", [vals.idx(2).assign(x), ret], "undeclared"
    yield "redeclared", [x.declare(I).assign(1), x.declare(I).assign(2), ret], "redeclared"
    yield "scope-closed", [A.Branch(A.BooleanLiteral(True), A.Block([x.declare(I).assign(1)]), A.Block([])),
                           vals.idx(2).assign(x), ret], "undeclared"
    yield "nested-block-no-scope", [A.Block([x.declare(I).assign(1)], "c"), vals.idx(2).assign(x), ret], None
    yield "runaway", [x.declare(I).assign(0), A.Loop(A.LessThan(x, A.IntegerLiteral(1)), A.Block([])), ret], "runaway"
    yield "bounded-loop-ok", [x.declare(I).assign(0), A.Loop(A.LessThan(x, A.IntegerLiteral(5)), A.Block([x.increment()])), ret], None
    yield "nonzero-return-value", [A.Return(A.IntegerLiteral(7))], ("return", 7)
    yield "no-return", [vals.idx(2).assign(1.0)], "no-return"
    yield "malloc-ok", [p.declare(T.Pointer(F)).assign(A.ArrayAllocate(F, A.IntegerLiteral(2))), p.idx(1).assign(2.0),
                        vals.idx(2).assign(p.idx(1)), ret], None
    yield "malloc-uninit", [p.declare(T.Pointer(F)).assign(A.ArrayAllocate(F, A.IntegerLiteral(2))), vals.idx(2).assign(p.idx(1)), ret], "uninit-read"
    yield "malloc-negative", [p.declare(T.Pointer(F)).assign(A.ArrayAllocate(F, A.Subtract(A.IntegerLiteral(0), A.IntegerLiteral(1)))), ret], "bad-alloc"
    yield "realloc-keeps-prefix", [p.declare(T.Pointer(I)).assign(A.ArrayAllocate(I, A.IntegerLiteral(1))), p.idx(0).assign(4),
                                   p.assign(A.ArrayReallocate(p, I, A.IntegerLiteral(3))), vals.idx(2).assign(p.idx(0)), ret], None
    yield "realloc-tail-uninit", [p.declare(T.Pointer(I)).assign(A.ArrayAllocate(I, A.IntegerLiteral(1))), p.idx(0).assign(4),
                                  p.assign(A.ArrayReallocate(p, I, A.IntegerLiteral(3))), vals.idx(2).assign(p.idx(2)), ret], "uninit-read"
    q = A.Variable("q")
    yield "stale-pointer-after-realloc", [p.declare(T.Pointer(I)).assign(A.ArrayAllocate(I, A.IntegerLiteral(1))), p.idx(0).assign(4),
                                          q.declare(T.Pointer(I)).assign(p), p.assign(A.ArrayReallocate(p, I, A.IntegerLiteral(3))),
                                          vals.idx(2).assign(q.idx(0)), ret], "use-after-free"
    yield "realloc-zero-is-null", [p.declare(T.Pointer(I)).assign(A.ArrayAllocate(I, A.IntegerLiteral(1))),
                                   p.assign(A.ArrayReallocate(p, I, A.IntegerLiteral(0))), vals.idx(2).assign(p.idx(0)), ret], "null-deref"
    yield "realloc-foreign", [vals.assign(A.ArrayReallocate(vals, F, A.IntegerLiteral(9))), ret], "realloc-foreign"
    yield "short-circuit-and", [A.Branch(A.And(A.BooleanLiteral(False), A.Equal(vals.idx(9), vals.idx(9))), A.Block([]), A.Block([])), ret], None
    yield "no-short-circuit-needed", [A.Branch(A.And(A.BooleanLiteral(True), A.LessThan(dims.idx(9), A.IntegerLiteral(1))), A.Block([]), A.Block([])), ret], "oob-read"
    yield "int-to-double-store", [vals.idx(2).assign(A.IntegerLiteral(3)), ret], None
    yield "double-to-int-var", [x.declare(I).assign(vals.idx(0)), ret], "type"
    yield "bool-arith", [x.declare(I).assign(A.Add(A.BooleanLiteral(True), A.IntegerLiteral(1))), ret], "type"
    yield "vals-field-assign-ok", [p.declare(T.Pointer(F)).assign(A.ArrayAllocate(F, A.IntegerLiteral(1))), vals.assign(p), ret], None
    yield "dimensions-field-assign", [p.declare(T.Pointer(I)).assign(A.ArrayAllocate(I, A.IntegerLiteral(1))), dims.assign(p), ret], "write-protected"


def run():
    """-> list of problems (empty = the machine behaves as specified)."""
    from . import bridge

    bridge.ensure_tensora()
    problems = []
    n = 0
    for name, stmts, expect in cases():
        n += 1
        try:
            rv, _m, _t = _run(stmts)
            got = ("return", rv) if rv != 0 else None
        except Trap as t:
            got = t.kind
        if got != expect:
            problems.append(f"machine self-test {name}: expected {expect}, got {got}")
    # allocation freeze
    from tensora.ir import ast as A
    from tensora.ir import types as T

    try:
        _run([A.Variable("p").declare(T.Pointer(T.float)).assign(A.ArrayAllocate(T.float, A.IntegerLiteral(1))),
              A.Return(A.IntegerLiteral(0))], frozen=True)
        problems.append("machine self-test alloc-forbidden: expected a trap")
    except Trap as t:
        if t.kind != "alloc-forbidden":
            problems.append(f"machine self-test alloc-forbidden: got {t.kind}")
    return problems, n + 1
