"""Reference semantics, independent of tensora (DESIGN.md §2.2).

L0  sum-of-products meaning over exact rationals (the statement of C01 made executable)
L1  literal denotation of tensora's own *desugared* tree (defect model for F-A/F-B)
support  C03's set semantics
compare  the stated comparison rule between stored doubles and exact values
"""
from __future__ import annotations

import itertools
from fractions import Fraction

from . import exprs as X


def dense_of(stored_by_name):
    """{name: {coord: float}} -> {name: {coord: Fraction}}"""
    return {n: {c: Fraction(v) for c, v in d.items()} for n, d in stored_by_name.items()}


def reference(target, tree, dense, sizes):
    """L0.  target = [name, [idx..]]; dense = {name: {coord: Fraction}} (absent = 0).
    Returns (dims, {coord: Fraction}, {coord: magnitude bound Fraction}, n_ops)."""
    tgt = list(target[1])
    out_dims = tuple(sizes[i] for i in tgt)
    coords = list(itertools.product(*[range(d) for d in out_dims]))
    out = {c: Fraction(0) for c in coords}
    mag = {c: Fraction(0) for c in coords}
    n_ops = 0
    for coef, ts in X.monomials(tree):
        idxs = []
        for t in ts:
            for i in t[2]:
                if i not in idxs:
                    idxs.append(i)
        contracted = [i for i in idxs if i not in tgt]
        ranges = [range(sizes[i]) for i in contracted]
        acoef = abs(coef)
        for oc in coords:
            env = dict(zip(tgt, oc))
            s = Fraction(0)
            a = Fraction(0)
            for cc in itertools.product(*ranges):
                env.update(zip(contracted, cc))
                p = coef
                q = acoef
                for t in ts:
                    v = dense[t[1]].get(tuple(env[i] for i in t[2]))
                    if v is None:
                        p = 0
                        q = 0
                        break
                    p *= v
                    q *= abs(v)
                s += p
                a += q
                n_ops += len(ts) + 1
            out[oc] += s
            mag[oc] += a
    return out_dims, out, mag, n_ops


def dyadic_exponent(fr):
    """q such that fr * 2**q is an integer (fr is a dyadic rational)."""
    d = fr.denominator
    q = d.bit_length() - 1
    assert d == 1 << q, fr
    return q


def exactness_exponent(tree, dense):
    """Upper bound on the denominator exponent of any partial product/sum of the evaluation."""
    per_tensor = {}
    for n, d in dense.items():
        per_tensor[n] = max([dyadic_exponent(v) for v in d.values()] + [0])
    worst = 0
    for coef, ts in X.monomials(tree):
        # coefficient is a product of literals; bound its exponent by the sum over literal leaves
        worst = max(worst, dyadic_exponent(coef) + sum(per_tensor[t[1]] for t in ts))
    lit = sum(dyadic_exponent(X.literal_value(l)) for l in X.leaves(tree) if l[0] in "if")
    return worst + lit


def magnitude_bound(tree, dense, sizes, target):
    """Bound on |any intermediate| under any association/distribution: evaluate with absolute values,
    '+' for '-', summing over every index that is not in the target (globally, not per monomial)."""
    tgt = list(target[1])
    allidx = [i for i in X.indexes_of(tree) if i not in tgt]
    total = Fraction(0)
    n = 1
    for i in allidx:
        n *= max(1, sizes[i])
    for coef, ts in X.monomials(tree):
        m = abs(coef)
        for t in ts:
            vs = [abs(v) for v in dense[t[1]].values()]
            m *= max(vs + [Fraction(1)])
        total += m * n
    lits = [abs(X.literal_value(l)) for l in X.leaves(tree) if l[0] in "if"]
    for l in lits:
        total *= max(l, Fraction(1))
    return max(total, Fraction(1))


def compare_values(got, expected, mag, n_ops, exact_ok):
    """Stated comparison rule.  got: {coord: float stored} (absent = 0.0).  Returns list of bad coords
    as (coord, got, expected)."""
    bad = []
    for c, e in expected.items():
        v = got.get(c, 0.0)
        if v != v or v in (float("inf"), float("-inf")):
            bad.append((c, v, e))
            continue
        fv = Fraction(v)
        if exact_ok:
            if fv != e:
                bad.append((c, v, e))
        else:
            tol = Fraction(n_ops + 4, 2**52) * mag[c]
            if abs(fv - e) > tol:
                bad.append((c, v, e))
    return bad


def exact_class_ok(tree, dense, sizes, target):
    q = exactness_exponent(tree, dense)
    m = magnitude_bound(tree, dense, sizes, target)
    return m * (1 << q) < 2**52


# ----------------------------------------------------------------------------- L1
def structural(asg, dense, sizes):
    """Literal denotation of tensora's desugared tree (Contract = sum over the index)."""
    from tensora.desugar import ast as D
    from tensora.desugar import desugar_assignment

    d = desugar_assignment(asg)
    tgt = d.target.indexes
    dims = tuple(sizes[i] for i in tgt)

    def ev(e, env):
        if isinstance(e, (D.Integer, D.Float)):
            return Fraction(e.value)
        if isinstance(e, D.Tensor):
            return dense[e.name].get(tuple(env[i] for i in e.indexes), Fraction(0))
        if isinstance(e, D.Add):
            return ev(e.left, env) + ev(e.right, env)
        if isinstance(e, D.Multiply):
            l = ev(e.left, env)
            return l * ev(e.right, env)
        if isinstance(e, D.Contract):
            s = Fraction(0)
            for v in range(sizes[e.index]):
                env2 = dict(env)
                env2[e.index] = v
                s += ev(e.expression, env2)
            return s
        raise TypeError(e)

    return dims, {c: ev(d.expression, dict(zip(tgt, c))) for c in itertools.product(*[range(x) for x in dims])}


def fused_contraction_over_free_term(asg):
    """Signature of F-A/F-B: the desugared tree has Contract(k, N) where some monomial of N lacks k.
    Returns the set of node kinds ('Add' / 'Multiply' / 'Tensor') directly under the offending
    contractions (nested Contract nodes skipped); empty set = signature absent."""
    from tensora.desugar import ast as D
    from tensora.desugar import desugar_assignment

    def monos(e):
        if isinstance(e, (D.Integer, D.Float)):
            return [frozenset()]
        if isinstance(e, D.Tensor):
            return [frozenset(e.indexes)]
        if isinstance(e, D.Add):
            return monos(e.left) + monos(e.right)
        if isinstance(e, D.Multiply):
            return [a | b for a in monos(e.left) for b in monos(e.right)]
        if isinstance(e, D.Contract):
            return [m - {e.index} for m in monos(e.expression)]
        raise TypeError(e)

    found = set()

    def walk(e):
        if isinstance(e, D.Contract):
            if any(e.index not in m for m in monos(e.expression)):
                inner = e.expression
                while isinstance(inner, D.Contract):
                    inner = inner.expression
                found.add(type(inner).__name__)
            walk(e.expression)
        elif isinstance(e, (D.Add, D.Multiply)):
            walk(e.left)
            walk(e.right)

    walk(desugar_assignment(asg).expression)
    return found


# ------------------------------------------------------------------------- support
def support(target, tree, stored_sets, sizes):
    """C03 set semantics: set of target coordinates with structural support.
    stored_sets: {name: set of stored coords (explicit zeros count, dense levels store everything)}."""
    tgt = list(target[1])
    sup = set()
    full = None
    for _coef, ts in X.monomials(tree):
        idxs = []
        for t in ts:
            for i in t[2]:
                if i not in idxs:
                    idxs.append(i)
        extra = [i for i in idxs if i not in tgt]
        allidx = tgt + extra
        # iterate the smallest operand's stored set to stay cheap
        for cc in itertools.product(*[range(sizes[i]) for i in allidx]):
            env = dict(zip(allidx, cc))
            if all(tuple(env[i] for i in t[2]) in stored_sets[t[1]] for t in ts):
                sup.add(tuple(env[i] for i in tgt))
    return sup
