"""Shared execution/oracle layer for kernel cases (used by C01-C05, C07a, C16)."""
from __future__ import annotations

from fractions import Fraction

from . import bridge
from . import cases as C
from . import exprs as X
from . import oracle as O
from .machine import Machine, Trap
from .runner import fail, jhash


def trap_info(t):
    """Is the trapping IR expression built from literals only (F-I: int32 literal arithmetic)?"""
    from tensora.ir import ast as A

    def lit_only(e):
        if isinstance(e, (A.IntegerLiteral, A.FloatLiteral)):
            return True
        if isinstance(e, (A.Add, A.Subtract, A.Multiply)):
            return lit_only(e.left) and lit_only(e.right)
        return False

    node = t.node
    return {"trap": t.kind, "literal_only": bool(node is not None and lit_only(node))}


def dense_inputs(case):
    """{name: {coord: Fraction}} and {name: set(stored coords)} decoded from the case's own level
    structures (independent of tensora)."""
    _prob, asg, _f = bridge.problem_of(case)
    dense = {}
    stored = {}
    for nm, s in case["inputs"].items():
        dims = C.tensor_dims(asg, case["sizes"], nm)
        _modes, ordering = C.fmt_parts(case["formats"][nm])
        d = C.stored_coords(s["levels"], s["vals"], dims, ordering)
        stored[nm] = set(d)
        dense[nm] = {c: Fraction(v) for c, v in d.items()}
    return dense, stored


class Expected:
    """L0 (and lazily L1) for a case."""

    def __init__(self, case):
        self.case = case
        self.dense, self.stored_sets = dense_inputs(case)
        self.dims, self.values, self.mag, self.n_ops = O.reference(
            case["target"], case["expr"], self.dense, case["sizes"]
        )
        self.exact_ok = O.exact_class_ok(case["expr"], self.dense, case["sizes"], case["target"])
        self._l1 = None
        self._sig = None

    def l1(self):
        if self._l1 is None:
            _p, asg, _f = bridge.problem_of(self.case)
            self._l1 = O.structural(asg, self.dense, self.case["sizes"])[1]
        return self._l1

    def fused_signature(self):
        if self._sig is None:
            _p, asg, _f = bridge.problem_of(self.case)
            self._sig = O.fused_contraction_over_free_term(asg)
        return self._sig

    def compare(self, got):
        return O.compare_values(got, self.values, self.mag, self.n_ops, self.exact_ok)

    def value_fails(self, got, where):
        """-> list of fails comparing decoded stored values with L0 (L1 as defect model)."""
        bad = self.compare(got)
        if not bad:
            return []
        c, v, e = bad[0]
        detail = f"{where}: {self.case['assignment']} {self.case['formats']} at {c}: got {v!r}, expected {float(e)!r} ({len(bad)} coords differ)"
        if self.fused_signature():
            l1bad = O.compare_values(got, self.l1(), self.mag, self.n_ops, self.exact_ok)
            if not l1bad:
                kinds = sorted(self.fused_signature())
                return [fail("value:fused-contraction:" + "+".join(kinds), detail, fused=kinds, layer="desugar")]
        return [fail("value:mismatch", detail, fused=sorted(self.fused_signature()), where=where)]

    def any_nonzero(self):
        return any(v != 0 for v in self.values.values())


def build(case, kinds=("evaluate",), optimise=True):
    return bridge.build_module(case, kinds, capacity=case.get("capacity"), optimise=optimise)


def machine_evaluate(case, fn, **kw):
    """Run evaluate on the machine.  -> (fails, machine, out_struct, stored, arrays, errs)"""
    try:
        m, structs, _rv = bridge.run_on_machine(case, fn, **kw)
    except Trap as t:
        info = trap_info(t)
        return [fail(f"trap:{t.kind}", f"{case['assignment']} {case['formats']} sizes={case['sizes']}: {t.msg}", **info)], None, None, None, None, None
    st = structs[case["target"][0]]
    errs, stored, arrays, _n = C.decode_struct(st, strict=True)
    return [], m, st, stored, arrays, errs


def native_check(case, exp, worker, backend="llvm"):
    """Run the user-facing path (tensor_method) in the worker and apply the oracle to raw arrays."""
    rep = worker.call({"op": "evaluate", "case": case, "backend": backend, "capacity": case.get("capacity")})
    where = f"native-{backend}"
    if "crash" in rep:
        return [fail(f"{where}:crash", f"{case['assignment']} {case['formats']}: {rep['crash']}")], rep
    if "error" in rep:
        raise bridge.HarnessError(f"native worker: {rep['error']}\n{rep.get('trace', '')}")
    if "refused" in rep:
        return [fail(f"{where}:refused-after-machine-ok:{rep['refused']}", f"{case['assignment']} {case['formats']}: {rep['message']}")], rep
    if "raised" in rep:
        return [fail(f"{where}:raised:{rep['raised']}", f"{case['assignment']} {case['formats']}: {rep['message']}")], rep
    raw = rep["raw"]
    fails = []
    if raw["problem"]:
        return [fail(f"{where}:invalid:{raw['problem'].split(' ')[0]}", f"{case['assignment']} {case['formats']}: {raw['problem']}")], rep
    if tuple(raw["dims"]) != tuple(exp.dims):
        fails.append(fail(f"{where}:dimensions", f"{case['assignment']}: dims {raw['dims']} expected {exp.dims}"))
        return fails, rep
    oname = case["target"][0]
    modes, ordering = C.fmt_parts(case["formats"][oname])
    if tuple(raw["modes"]) != modes or tuple(raw["ordering"]) != ordering:
        fails.append(fail(f"{where}:format", f"{case['assignment']}: got {raw['modes']} {raw['ordering']}"))
        return fails, rep
    errs = C.validate_arrays(raw["dims"], raw["ordering"], raw["modes"], raw["levels"], len(raw["vals"]))
    if errs:
        fails.append(fail(f"{where}:invalid:{errs[0][0]}", f"{case['assignment']} {case['formats']}: {errs}"))
        return fails, rep
    stored = C.stored_coords(raw["levels"], raw["vals"], raw["dims"], raw["ordering"])
    fails += exp.value_fails(stored, where)
    # inputs must be unchanged
    for nm, after in rep["inputs_after"].items():
        s = case["inputs"][nm]
        want_levels = [None if lv is None else [list(lv[0]), list(lv[1])] for lv in s["levels"]]
        got_levels = [None if lv is None else [list(lv[0]), list(lv[1])] for lv in after["levels"]]
        if got_levels != want_levels or [float(v) for v in s["vals"]] != after["vals"]:
            fails.append(fail(f"{where}:input-modified", f"{case['assignment']}: input {nm} changed"))
    return fails, rep


# ---------------------------------------------------------------------------- companions
def restore_input(stored, dims, old_fmt, new_fmt):
    """Same stored coordinates (explicit zeros included) in another format."""
    _m, oord = C.fmt_parts(old_fmt)
    d = C.stored_coords(stored["levels"], stored["vals"], dims, oord)
    nm, nord = C.fmt_parts(new_fmt)
    levels, vals = C.levels_from_dok(d, dims, nm, nord)
    return {"levels": levels, "vals": vals}


def with_formats(case, new_formats):
    _p, asg, _f = bridge.problem_of(case)
    c = dict(case)
    c["formats"] = dict(new_formats)
    c["inputs"] = {
        nm: restore_input(s, C.tensor_dims(asg, case["sizes"], nm), case["formats"][nm], new_formats[nm])
        for nm, s in case["inputs"].items()
    }
    c.pop("companions", None)
    return c


def commuted(tree, bits):
    """Swap operands of + and *; re-associate (x op y) op z <-> x op (y op z) for op in + *."""
    it = iter(bits)

    def nxt():
        return next(it, 0)

    def rec(t):
        if X.is_leaf(t):
            return t
        op, l, r = t[0], rec(t[1]), rec(t[2])
        if op in "+*":
            b = nxt()
            if b == 1:
                l, r = r, l
            elif b == 2 and not X.is_leaf(l) and l[0] == op:
                return [op, l[1], [op, l[2], r]]
            elif b == 3 and not X.is_leaf(r) and r[0] == op:
                return [op, [op, l, r[1]], r[2]]
        return [op, l, r]

    return rec(tree)


def with_tree(case, tree):
    c = dict(case)
    c["expr"] = tree
    c["assignment"] = X.assignment_text(case["target"], tree)
    # formats must follow order of appearance for Problem; rebuild in new order
    order = [case["target"][0]]
    for t in X.tensors(tree):
        if t[1] not in order:
            order.append(t[1])
    c["formats"] = {n: case["formats"][n] for n in order}
    c.pop("companions", None)
    return c


def renamed(case, tmap, imap):
    c = dict(case)
    tgt = [tmap.get(case["target"][0], case["target"][0]), [imap.get(i, i) for i in case["target"][1]]]
    c["target"] = tgt
    c["expr"] = X.rename(case["expr"], tmap, imap)
    c["assignment"] = X.assignment_text(tgt, c["expr"])
    c["formats"] = {tmap.get(n, n): f for n, f in case["formats"].items()}
    c["inputs"] = {tmap.get(n, n): s for n, s in case["inputs"].items()}
    c["sizes"] = {imap.get(i, i): s for i, s in case["sizes"].items()}
    c.pop("companions", None)
    return c


def sample_of(case):
    return {
        "assignment": case["assignment"],
        "formats": case["formats"],
        "sizes": case["sizes"],
        "stored_entries": {n: len(s["vals"]) for n, s in case["inputs"].items()},
        "capacity": case.get("capacity"),
    }


def case_id(case):
    return jhash({k: case[k] for k in ("assignment", "formats", "sizes", "inputs") if k in case})


# ------------------------------------------------------------------- cases from text (sweeps)
def case_from_text(text, formats, sizes, doks, capacity=None, value_class="exact"):
    """Build a kernel case from assignment text (parsed by tensora, converted to a harness tree)."""
    bridge.ensure_tensora()
    from tensora.expression import parse_assignment

    asg = parse_assignment(text).unwrap()
    tree = X.from_tensora(asg.expression)
    target = [asg.target.name, list(asg.target.indexes)]
    names = [target[0]] + list(dict.fromkeys(t[1] for t in X.tensors(tree)))
    first = {}
    for t in X.tensors(tree):
        first.setdefault(t[1], t)
    fm = {n: formats.get(n, "d" * (len(target[1]) if n == target[0] else len(first[n][2]))) for n in names}
    inputs = {}
    for n in names[1:]:
        dims = tuple(sizes[i] for i in first[n][2])
        m, o = C.fmt_parts(fm[n])
        levels, vals = C.levels_from_dok(doks.get(n, {}), dims, m, o)
        inputs[n] = {"levels": levels, "vals": vals}
    used = set(X.indexes_of(tree)) | set(target[1])
    return {"target": target, "expr": tree, "assignment": X.assignment_text(target, tree), "formats": fm,
            "sizes": {i: sizes[i] for i in sorted(used)}, "inputs": inputs, "value_class": value_class,
            "capacity": capacity}


def pattern_dok(dims, k, salt=0):
    """Deterministic sparse pattern with values that are multiples of 1/2 (explicit zeros never stored)."""
    import itertools

    d = {}
    for c in itertools.product(*[range(x) for x in dims]):
        h = (sum((q + 1) * v for q, v in enumerate(c)) * 7 + 3 * k + salt + len(dims)) % 5
        if h in (0, 2) or (k % 2 == 1 and h == 4):
            v = ((sum(c) + k + salt) % 7 - 3) / 2
            d[c] = v if v != 0 else 1.5
    return d
