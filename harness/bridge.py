"""Everything that touches tensora's generator: building IR modules for a case (with the initial
capacity and the optimiser under harness control) and running them on the abstract machine."""
from __future__ import annotations

import contextlib
import os
import sys

from . import cases as C
from . import exprs as X
from .machine import Interp, Machine, Trap, count_statements

REPO_SRC = os.environ.get("VERIF_REPO_SRC", "/repo/src")


def ensure_tensora():
    """Import tensora from the working tree under test (never from an installed copy)."""
    if REPO_SRC not in sys.path:
        sys.path.insert(0, REPO_SRC)
    import tensora

    here = os.path.realpath(os.path.dirname(tensora.__file__))
    want = os.path.realpath(os.path.join(REPO_SRC, "tensora"))
    if here != want:
        raise HarnessError(f"tensora imported from {here}, expected {want}")
    return tensora


class HarnessError(Exception):
    """Something is wrong with the harness or its environment (exit code 2, never a violation)."""


@contextlib.contextmanager
def knobs(capacity=None, optimise=True):
    """Set the initial array capacity of appended outputs and/or disable the peephole pass,
    without editing tensora (DESIGN.md §1 'Source hooks: none')."""
    ensure_tensora()
    import tensora.generate  # noqa: F401
    import tensora.iteration_graph.outputs._append as AP
    from tensora.ir.ast import IntegerLiteral

    if not hasattr(AP, "default_array_size"):
        raise HarnessError("tensora.iteration_graph.outputs._append.default_array_size is gone")
    # the optimisation pass is switched off by replacing the name ``peephole`` wherever a module of tensora.generate
    # imported it (generate_module_tensora on this tree; a refactoring may move the call next to the printers)
    import sys

    holders = [m for n, m in list(sys.modules.items()) if n.startswith("tensora.generate") and hasattr(m, "peephole")]
    if not optimise and not holders:
        raise HarnessError("no module of tensora.generate refers to the peephole pass any more")
    old_cap = AP.default_array_size
    old_pp = [(m, m.peephole) for m in holders]
    try:
        if capacity is not None:
            AP.default_array_size = IntegerLiteral(int(capacity))
        if not optimise:
            for m in holders:
                m.peephole = lambda module: module
        yield
    finally:
        AP.default_array_size = old_cap
        for m, f in old_pp:
            m.peephole = f


def clear_kernel_cache():
    """Empty the kernel cache of tensora.compile._porcelain whatever it is called: every module-level object with a
    cache_clear() (an lru_cache) is cleared, and dictionaries the module keeps next to it are emptied.  Returns the
    number of caches cleared (0 = the module caches nothing the harness can see)."""
    ensure_tensora()
    import tensora.compile._porcelain as P

    n = 0
    for name, v in list(vars(P).items()):
        cc = getattr(v, "cache_clear", None)
        if callable(cc):
            cc()
            n += 1
        elif isinstance(v, dict) and "cache" in name.lower() and not name.startswith("__"):
            v.clear()  # a hand-written cache (dict / OrderedDict) kept next to, or instead of, the lru_cache
            n += 1
    return n


def kernel_cache_info():
    """cache_info() of the kernel cache (the first lru_cache found in _porcelain, cachable_tensor_method first)."""
    ensure_tensora()
    import tensora.compile._porcelain as P

    cands = [getattr(P, "cachable_tensor_method", None)] + list(vars(P).values())
    for v in cands:
        ci = getattr(v, "cache_info", None)
        if callable(ci):
            return ci()
    raise HarnessError("tensora.compile._porcelain has no lru_cache any more")


def problem_of(case):
    ensure_tensora()
    from tensora.problem import Problem

    asg, fmts = C.parse_case(case)
    return Problem(asg, fmts), asg, fmts


DOCUMENTED_REFUSALS = ("DiagonalAccessError", "NoKernelFoundError")


def build_module(case, kinds=("evaluate",), capacity=None, optimise=True):
    """-> ('ok', Module) | ('refused', ErrorName) | ('crash', (ExcName, where, message))."""
    ensure_tensora()
    from returns.result import Failure
    from tensora.generate import generate_module_tensora
    from tensora.kernel_type import KernelType

    prob, _asg, _fmts = problem_of(case)
    kts = [KernelType[k] for k in kinds]
    try:
        with knobs(capacity, optimise):
            res = generate_module_tensora(prob, kts)
    except RecursionError as e:
        return "crash", ("RecursionError", innermost_frame(e), "")
    except Exception as e:  # noqa: BLE001 - classify, never swallow: becomes a C08 failure bucket
        return "crash", (type(e).__name__, innermost_frame(e), str(e)[:200])
    if isinstance(res, Failure):
        return "refused", type(res.failure()).__name__
    return "ok", res.unwrap()


def public_code(case, kinds=("evaluate", "assemble", "compute"), language="c", capacity=None):
    """The text tensora's public generate_code() returns for the case (what the CLI prints), or None when refused."""
    ensure_tensora()
    from returns.result import Failure
    from tensora.generate import Language, generate_code
    from tensora.kernel_type import KernelType

    prob, _asg, _fmts = problem_of(case)
    with knobs(capacity, True):
        res = generate_code(prob, [KernelType[k] for k in kinds], Language[language])
    return None if isinstance(res, Failure) else res.unwrap()


def innermost_frame(exc):
    """Innermost traceback frame inside tensora: 'file.py:function'."""
    tb = exc.__traceback__
    best = "?"
    while tb is not None:
        fn = tb.tb_frame.f_code.co_filename
        if "tensora" in fn:
            best = f"{os.path.basename(fn)}:{tb.tb_frame.f_code.co_name}"
        tb = tb.tb_next
    return best


def functions_of(module):
    return {f.name.name: f for f in module.definitions}


def step_budget(fn, case):
    """Deterministic step budget: (#statements) * prod_idx((T+1)*dim+2), T = tensor occurrences."""
    T = len(X.tensors(case["expr"])) + 1
    b = count_statements(fn.body) + 10
    for _i, d in case["sizes"].items():
        b *= (T + 1) * d + 2
    return min(max(b, 10_000), 3_000_000)


def make_structs(m, case, fn, output_struct=None, dims_override=None):
    """Machine structs for every parameter of fn (output: empty struct unless given)."""
    _prob, asg, _fmts = problem_of(case)
    oname = case["target"][0]
    structs = {}
    for decl in fn.parameters:
        nm = decl.name.name
        dims = C.tensor_dims(asg, case["sizes"], nm)
        if dims_override and nm in dims_override:
            dims = tuple(dims_override[nm])
        if nm == oname:
            structs[nm] = output_struct if output_struct is not None else C.empty_output_struct(
                m, nm, dims, case["formats"][nm]
            )
        else:
            structs[nm] = C.input_struct(m, nm, dims, case["formats"][nm], case["inputs"][nm])
    return structs


def snapshot_inputs(structs, oname):
    snap = {}
    for nm, st in structs.items():
        if nm == oname:
            continue
        blocks = []
        for ptr_field in ("dimensions", "vals"):
            b = st.fields[ptr_field].block
            blocks.append(None if b is None else (b.length, dict(b.cells), b.live))
        ib = st.fields["indices"].block
        for l in range(ib.length):
            lb = ib.cells[l].block
            blocks.append((lb.length, dict(lb.cells), lb.live))
            for q in range(lb.length):
                bb = lb.cells[q].block
                blocks.append(None if bb is None else (bb.length, dict(bb.cells), bb.live))
        snap[nm] = blocks
    return snap


def run_on_machine(case, fn, machine=None, output_struct=None, dims_override=None, log_access=False,
                   budget=None, scoping="c"):
    """Run one kernel function.  Returns (machine, structs, return_value).  Raises Trap."""
    m = machine or Machine()
    m.budget = budget or step_budget(fn, case)
    m.steps = 0
    m.log_access = log_access
    structs = make_structs(m, case, fn, output_struct, dims_override)
    oname = case["target"][0]
    before = snapshot_inputs(structs, oname)
    it = Interp(m, output_name=oname, scoping=scoping)
    rv = it.run(fn, [structs[d.name.name] for d in fn.parameters])
    if snapshot_inputs(structs, oname) != before:
        raise Trap("input-modified", "an input tensor changed")
    if rv != 0:
        raise Trap("nonzero-return", repr(rv))
    return m, structs, rv
