"""Zygote worker for C15: a process that has imported tensora but never generated or evaluated anything.  Every request
is executed in a fork of it that exits afterwards, so each answer is what a *fresh process* gives for that request -
no kernel cache, no memo table, no module-level state left behind by an earlier request can influence it."""
from __future__ import annotations

import json
import os
import sys


def main():
    out = os.fdopen(os.dup(1), "w")
    os.dup2(2, 1)
    sys.path.insert(0, os.path.dirname(os.path.dirname(os.path.dirname(os.path.abspath(__file__)))))
    from harness import bridge
    from harness import cases as C

    bridge.ensure_tensora()
    from tensora import evaluate, tensor_method  # noqa: F401 - import everything the child needs before forking

    def run(st):
        try:
            inputs = {n: C.tensor_from_stored(tuple(st["inputs"][n]["dims"]), st["inputs"][n]["fmt"], st["inputs"][n]["stored"])
                      for n in st["kwargs_order"]}
            fm = dict(st["formats"])
            if st["entry"] == "evaluate":
                res = evaluate(st["assignment"], fm[st["target"]], **inputs)
            else:
                res = tensor_method(st["assignment"], fm)(**inputs)
            return {"raw": C.raw_of_tensor(res)}
        except Exception as e:  # noqa: BLE001
            return {"raised": f"{type(e).__name__}: {e}"[:300]}

    for line in sys.stdin:
        req = json.loads(line)
        try:
            if req["op"] == "ping":
                rep = {"ok": True}
            elif req["op"] == "fresh":
                r, w = os.pipe()
                pid = os.fork()
                if pid == 0:
                    code = 0
                    try:
                        os.close(r)
                        with os.fdopen(w, "w") as fh:
                            fh.write(json.dumps(run(req["request"])))
                    except BaseException:  # noqa: BLE001
                        code = 3
                    os._exit(code)
                os.close(w)
                with os.fdopen(r) as fh:
                    data = fh.read()
                _pid, status = os.waitpid(pid, 0)
                if status != 0 or not data:
                    rep = {"crash_in_fresh_process": f"wait status {status}"}
                else:
                    rep = json.loads(data)
            else:
                rep = {"error": "unknown op"}
        except Exception as e:  # noqa: BLE001
            import traceback

            rep = {"error": f"{type(e).__name__}: {e}", "trace": traceback.format_exc()[-1200:]}
        out.write(json.dumps(rep) + "\n")
        out.flush()


if __name__ == "__main__":
    main()
