"""Child process for C13, started with LD_PRELOAD=build/libinterpose.so.  Executes history steps on real
tensora objects and reports free() counts of kernel-allocated arrays."""
from __future__ import annotations

import ctypes
import gc
import json
import os
import pickle
import sys


def main():
    out = os.fdopen(os.dup(1), "w")
    os.dup2(2, 1)
    sys.path.insert(0, os.path.dirname(os.path.dirname(os.path.dirname(os.path.abspath(__file__)))))
    from harness import bridge

    bridge.ensure_tensora()
    from tensora import Tensor, evaluate
    from tensora.compile import tensor_cdefs

    lib = ctypes.CDLL(None)
    try:
        lib.verif_watch.argtypes = [ctypes.c_void_p]
        lib.verif_free_count.argtypes = [ctypes.c_void_p]
        lib.verif_free_count.restype = ctypes.c_int
        lib.verif_reset.argtypes = []
        lib.verif_capture.argtypes = [ctypes.c_int]
        lib.verif_was_captured.argtypes = [ctypes.c_void_p]
        lib.verif_was_captured.restype = ctypes.c_int
        lib.verif_capture_release.argtypes = [ctypes.c_void_p, ctypes.c_int]
    except AttributeError:
        out.write(json.dumps({"fatal": "interposer not loaded (LD_PRELOAD missing)"}) + "\n")
        out.flush()
        return
    A = Tensor.from_dok({(0, 1): 2.0, (1, 0): 3.0, (1, 2): 1.0}, dimensions=(2, 3), format="ds")
    # E has a support disjoint from A's, so a product with it gives a compressed result with NO stored coordinate
    E = Tensor.from_dok({(0, 0): 5.0}, dimensions=(2, 3), format="ss")
    # F is completely full, so A + F gives a compressed result in which every position is stored
    F = Tensor.from_dok({(i, j): float(1 + i + j) for i in range(2) for j in range(3)}, dimensions=(2, 3), format="ds")
    FMT = {"sparse": "ss", "dense": "dd", "scalar": "", "empty": "ss", "empty_ds": "ds", "direct": "ss", "direct_dense": "dd",
           "full_strict": "ss"}

    def run_direct(text, out_fmt, inputs):
        """A TensorMethod built directly from a Problem whose formats are NOT in target-first order (legal API; only
        make_problem puts the target first)."""
        from tensora.compile import TensorMethod
        from tensora.expression import parse_assignment
        from tensora.format import parse_format
        from tensora.problem import Problem

        asg = parse_assignment(text).unwrap()
        fm = {n: t.format for n, t in inputs.items()}
        fm[asg.target.name] = parse_format(out_fmt).unwrap()  # target last
        return TensorMethod(Problem(asg, fm))(**inputs)
    names = {}      # name -> python object (Tensor or cffi struct)
    arrays = {}     # object id -> [addresses]

    def addresses(t):
        ct = t.cffi_tensor
        idx = tensor_cdefs.cast("int32_t***", ct.indices)
        ptrs = []
        for l in range(ct.order):
            if int(ct.mode_types[l]) == 1:
                ptrs.append(int(tensor_cdefs.cast("intptr_t", idx[l][0])))
                ptrs.append(int(tensor_cdefs.cast("intptr_t", idx[l][1])))
        ptrs.append(int(tensor_cdefs.cast("intptr_t", ct.vals)))
        return [p for p in ptrs if p]

    def expression(in_kind, out_kind):
        o = "y(i,j)" if out_kind != "scalar" else "y()"
        if out_kind == "full_strict":
            if in_kind is None:
                return "y(i,j) = A(i,j) + F(i,j)"
            if in_kind == "scalar":
                return "y(i,j) = A(i,j) * x() + F(i,j)"
            return "y(i,j) = x(i,j) * A(i,j) + F(i,j)"
        if out_kind in ("empty", "empty_ds"):
            if in_kind is None:
                return "y(i,j) = A(i,j) * E(i,j)"
            if in_kind == "scalar":
                return "y(i,j) = A(i,j) * E(i,j) * x()"
            return "y(i,j) = x(i,j) * E(i,j) * A(i,j)"
        if in_kind is None:
            return f"{o} = A(i,j) * 2" if out_kind != "scalar" else "y() = A(i,j) * A(i,j)"
        if in_kind == "scalar":
            return f"{o} = A(i,j) * x()"
        return f"{o} = x(i,j) * A(i,j)"

    next_id = [0]
    for line in sys.stdin:
        req = json.loads(line)
        cmd = req["cmd"]
        rep = {"ok": True}
        try:
            if cmd == "eval":
                src = req.get("input")
                lib.verif_capture(1)
                try:
                    extra = {"E": E} if req["kind"] in ("empty", "empty_ds") else ({"F": F} if req["kind"] == "full_strict" else {})
                    if req["kind"] == "full_strict":
                        # the process runs with warnings turned into errors for this call (python -W error, pytest -W
                        # error): nothing between the kernel and the hand-over of its arrays may be able to raise
                        import warnings

                        strict = warnings.catch_warnings()
                        strict.__enter__()
                        warnings.simplefilter("error")
                    else:
                        strict = None
                    direct = req["kind"].startswith("direct")
                    okind = {"direct": "sparse", "direct_dense": "dense"}.get(req["kind"], req["kind"])
                    if src is None:
                        if direct:
                            res = run_direct(expression(None, okind), FMT[req["kind"]], {"A": A})
                        else:
                            res = evaluate(expression(None, okind), FMT[req["kind"]], A=A, **extra)
                    else:
                        x = names[src]
                        if direct:
                            # the fed tensor comes FIRST among the parameters
                            res = run_direct(expression(req["in_kind"], okind), FMT[req["kind"]], {"x": x, "A": A})
                        else:
                            res = evaluate(expression(req["in_kind"], okind), FMT[req["kind"]], A=A, x=x, **extra)
                        del x
                finally:
                    lib.verif_capture(0)
                    if strict is not None:
                        strict.__exit__(None, None, None)
                oid = next_id[0]
                next_id[0] += 1
                ptrs = addresses(res)
                early = [lib.verif_was_captured(p) for p in ptrs]
                for p in ptrs:
                    lib.verif_watch(p)
                keep = (ctypes.c_void_p * len(ptrs))(*ptrs)
                lib.verif_capture_release(keep, len(ptrs))
                arrays[oid] = ptrs
                names[req["out"]] = res
                rep = {"ok": True, "object": oid, "n_arrays": len(ptrs), "freed_during_call": early}
                del res
            elif cmd == "alias":
                names[req["dst"]] = names[req["src"]]
            elif cmd == "cffi":
                names[req["dst"]] = names[req["src"]].cffi_tensor
            elif cmd == "read":
                rep = {"ok": True, "value": repr(sorted(names[req["src"]].to_dok().items())[:3])}
            elif cmd == "pickle":
                names[req["dst"]] = pickle.loads(pickle.dumps(names[req["src"]]))
            elif cmd == "iter":
                # an items() iterator that has been started: whoever holds it is reading the tensor
                it = names[req["src"]].items()
                sentinel = object()
                first = next(it, sentinel)
                names[req["dst"]] = it
                # a generator that has finished holds nothing any more
                rep = {"ok": True, "first": repr(first) if first is not sentinel else None, "exhausted": first is sentinel}
                del it
            elif cmd == "drain":
                rest = list(names[req["name"]])
                del names[req["name"]]
                rep = {"ok": True, "n": len(rest), "rest": repr(rest[:4])}
            elif cmd == "fail_eval":
                # a call that is refused, with a kernel result among its arguments; the caller catches the error
                x = names[req["src"]]
                v = req["variant"] % 4
                raised = None
                try:
                    if v == 0:
                        evaluate("y(i,j) = x(i,j) * A(i,j)", "sparse", A=A, x=x)
                    elif v == 1:
                        evaluate("y(i,j) = x(i,j) * A(i,j)", "d1s1", A=A, x=x)
                    elif v == 2:
                        evaluate("y(i,j) = x(i,j) * A(i,j)", "ds", A=A, w=x)
                    else:
                        evaluate("y(i,j,k) = x(i,j,k) * A(i,j)", "dds", A=A, x=x)
                except Exception as e:  # noqa: BLE001
                    raised = type(e).__name__
                del x
                rep = {"ok": True, "raised_and_caught": raised}
            elif cmd == "del":
                del names[req["name"]]
            elif cmd == "gc":
                gc.collect()
            elif cmd == "counts":
                rep = {"ok": True, "counts": {str(o): [lib.verif_free_count(p) for p in ps] for o, ps in arrays.items()}}
            elif cmd == "reset":
                names.clear()
                gc.collect()
                final = {str(o): [lib.verif_free_count(p) for p in ps] for o, ps in arrays.items()}
                arrays.clear()
                lib.verif_reset()
                rep = {"ok": True, "counts": final}
            else:
                rep = {"error": f"unknown cmd {cmd}"}
        except Exception as e:  # noqa: BLE001
            import traceback

            if cmd in ("eval", "read", "pickle", "alias", "cffi", "del", "gc", "iter", "drain", "fail_eval"):
                # on a correct tree none of these operations raises: report it as an observation
                rep = {"raised": f"{type(e).__name__}: {e}"[:300], "trace": traceback.format_exc()[-600:]}
            else:
                rep = {"error": f"{type(e).__name__}: {e}", "trace": traceback.format_exc()[-1200:]}
        out.write(json.dumps(rep) + "\n")
        out.flush()


if __name__ == "__main__":
    main()
