"""Native worker with extra ops (kept separate from worker.py so the basic protocol stays tiny).

  evaluate_roundtrip {case, capacity}: evaluate through tensor_method, return raw arrays, then apply the
      'hence' clause of C02: pickle round trip, to_format (dense and all-compressed), ==, dense copy kernel.
"""
from __future__ import annotations

import json
import os
import pickle
import sys


def hence_clause(res, case, C):
    """Each entry 'ok' or a description of what went wrong."""
    from tensora import evaluate

    out = {}
    raw = C.raw_of_tensor(res)
    stored = C.stored_coords(raw["levels"], raw["vals"], raw["dims"], raw["ordering"])
    nz = {c: v for c, v in stored.items() if v != 0.0}
    try:
        p = pickle.loads(pickle.dumps(res))
        rp = C.raw_of_tensor(p)
        out["pickle"] = "ok" if (rp["levels"], rp["vals"], rp["dims"], rp["modes"], rp["ordering"]) == (
            raw["levels"], raw["vals"], raw["dims"], raw["modes"], raw["ordering"]) else "content changed"
    except Exception as e:  # noqa: BLE001
        out["pickle"] = f"{type(e).__name__}: {e}"[:200]
    order = len(raw["dims"])
    for name, fmt in (("to_format_dense", "d" * order), ("to_format_compressed", "s" * order)):
        try:
            t2 = res.to_format(fmt)
            r2 = C.raw_of_tensor(t2)
            s2 = C.stored_coords(r2["levels"], r2["vals"], r2["dims"], r2["ordering"])
            ok = {c: v for c, v in s2.items() if v != 0.0} == nz and tuple(r2["dims"]) == tuple(raw["dims"])
            out[name] = "ok" if ok else f"content changed: {sorted(nz.items())[:3]} vs {sorted(s2.items())[:3]}"
        except Exception as e:  # noqa: BLE001
            out[name] = f"{type(e).__name__}: {e}"[:200]
    try:
        idx = ",".join(f"i{k}" for k in range(order))
        cp = evaluate(f"c({idx}) = r({idx})", "d" * order, r=res)
        rc = C.raw_of_tensor(cp)
        sc = C.stored_coords(rc["levels"], rc["vals"], rc["dims"], rc["ordering"])
        ok = all(sc.get(c, 0.0) == v for c, v in stored.items()) and all(v == stored.get(c, 0.0) for c, v in sc.items())
        out["as_input"] = "ok" if ok else "dense copy differs"
    except Exception as e:  # noqa: BLE001
        out["as_input"] = f"{type(e).__name__}: {e}"[:200]
    try:
        out["compare"] = "ok" if (res == res) is True else "not equal to itself"
    except Exception as e:  # noqa: BLE001
        out["compare"] = f"{type(e).__name__}: {e}"[:200]
    return out


def main():
    out = os.fdopen(os.dup(1), "w")
    os.dup2(2, 1)
    sys.path.insert(0, os.path.dirname(os.path.dirname(os.path.dirname(os.path.abspath(__file__)))))
    from harness import bridge
    from harness import cases as C

    bridge.ensure_tensora()
    from tensora import BackendCompiler, tensor_method
    from tensora.compile._porcelain import cachable_tensor_method

    for line in sys.stdin:
        req = json.loads(line)
        op = req["op"]
        try:
            if op == "ping":
                rep = {"ok": True}
            elif op == "evaluate_roundtrip":
                case = req["case"]
                _prob, asg, _f = bridge.problem_of(case)
                cap = req.get("capacity")
                fn = None
                with bridge.knobs(capacity=cap):
                    cachable_tensor_method.cache_clear()
                    try:
                        fn = tensor_method(case["assignment"], dict(case["formats"]), BackendCompiler.llvm)
                    except Exception as e:  # noqa: BLE001
                        rep = {"refused": type(e).__name__, "message": str(e)[:200]}
                cachable_tensor_method.cache_clear()
                if fn is not None:
                    args = {
                        nm: C.tensor_from_stored(C.tensor_dims(asg, case["sizes"], nm), case["formats"][nm], s)
                        for nm, s in case["inputs"].items()
                    }
                    try:
                        res = fn(**args)
                    except Exception as e:  # noqa: BLE001
                        rep = {"raised": type(e).__name__, "message": str(e)[:200]}
                    else:
                        raw = C.raw_of_tensor(res)
                        rep = {"raw": raw}
                        if not raw["problem"] and not C.validate_arrays(
                            raw["dims"], raw["ordering"], raw["modes"], raw["levels"], len(raw["vals"])
                        ):
                            rep["hence"] = hence_clause(res, case, C)
                        else:
                            rep["hence"] = {}
            else:
                rep = {"error": f"unknown op {op}"}
        except Exception as e:  # noqa: BLE001
            import traceback

            rep = {"error": f"{type(e).__name__}: {e}", "trace": traceback.format_exc()[-1500:]}
        out.write(json.dumps(rep) + "\n")
        out.flush()


if __name__ == "__main__":
    main()
