"""Native worker with extra ops (kept separate from worker.py so the basic protocol stays tiny).

  evaluate_roundtrip {case, capacity}: evaluate through tensor_method, return raw arrays, then apply the
      'hence' clause of C02: pickle round trip, to_format (dense and all-compressed), ==, dense copy kernel.
"""
from __future__ import annotations

import json
import os
import pickle
import sys


def hence_clause(res, case, C):
    """Each entry 'ok' or a description of what went wrong."""
    from tensora import evaluate

    out = {}
    raw = C.raw_of_tensor(res)
    stored = C.stored_coords(raw["levels"], raw["vals"], raw["dims"], raw["ordering"])
    nz = {c: v for c, v in stored.items() if v != 0.0}
    try:
        p = pickle.loads(pickle.dumps(res))
        rp = C.raw_of_tensor(p)
        out["pickle"] = "ok" if (rp["levels"], rp["vals"], rp["dims"], rp["modes"], rp["ordering"]) == (
            raw["levels"], raw["vals"], raw["dims"], raw["modes"], raw["ordering"]) else "content changed"
    except Exception as e:  # noqa: BLE001
        out["pickle"] = f"{type(e).__name__}: {e}"[:200]
    order = len(raw["dims"])
    for name, fmt in (("to_format_dense", "d" * order), ("to_format_compressed", "s" * order)):
        try:
            t2 = res.to_format(fmt)
            r2 = C.raw_of_tensor(t2)
            s2 = C.stored_coords(r2["levels"], r2["vals"], r2["dims"], r2["ordering"])
            ok = {c: v for c, v in s2.items() if v != 0.0} == nz and tuple(r2["dims"]) == tuple(raw["dims"])
            out[name] = "ok" if ok else f"content changed: {sorted(nz.items())[:3]} vs {sorted(s2.items())[:3]}"
        except Exception as e:  # noqa: BLE001
            out[name] = f"{type(e).__name__}: {e}"[:200]
    try:
        idx = ",".join(f"i{k}" for k in range(order))
        cp = evaluate(f"c({idx}) = r({idx})", "d" * order, r=res)
        rc = C.raw_of_tensor(cp)
        sc = C.stored_coords(rc["levels"], rc["vals"], rc["dims"], rc["ordering"])
        ok = all(sc.get(c, 0.0) == v for c, v in stored.items()) and all(v == stored.get(c, 0.0) for c, v in sc.items())
        out["as_input"] = "ok" if ok else "dense copy differs"
    except Exception as e:  # noqa: BLE001
        out["as_input"] = f"{type(e).__name__}: {e}"[:200]
    try:
        out["compare"] = "ok" if (res == res) is True else "not equal to itself"
    except Exception as e:  # noqa: BLE001
        out["compare"] = f"{type(e).__name__}: {e}"[:200]
    return out


def _call(engine, name, nparams, cffi_args):
    from tensora.compile import tensor_cdefs

    ftype = f"int32_t (*)({', '.join(['void *'] * nparams)})"
    fptr = tensor_cdefs.cast(ftype, engine.get_function_address(name))
    return fptr(*cffi_args)


_GUARD = [None, False]


def _guard_allocator():
    """Route malloc/realloc of JIT-compiled modules through build/libguardalloc.so (once per process)."""
    import ctypes
    import os

    if _GUARD[1]:
        return _GUARD[0]
    _GUARD[1] = True
    path = os.path.join(os.path.dirname(os.path.dirname(os.path.dirname(os.path.abspath(__file__)))), "build", "libguardalloc.so")
    if not os.path.exists(path):
        return None
    import llvmlite.binding as llvm

    lib = ctypes.CDLL(path)
    lib.guard_check.restype = ctypes.c_int
    llvm.add_symbol("malloc", ctypes.cast(lib.guard_malloc, ctypes.c_void_p).value)
    llvm.add_symbol("realloc", ctypes.cast(lib.guard_realloc, ctypes.c_void_p).value)
    _GUARD[0] = lib
    return lib


def llvm_kernels(req, bridge, C):
    """Build the module for a case, JIT it with tensora's own compile_module and run the requested kernels.
    evaluate on a fresh output; assemble then compute on a second output."""
    import gc

    from tensora import Tensor
    from tensora.compile import allocate_taco_structure, take_ownership_of_arrays
    from tensora.compile._compile_llvm import compile_module

    case = req["case"]
    kinds = req["kinds"]
    status, mod = bridge.build_module(case, kinds, capacity=case.get("capacity"))
    if status != "ok":
        return {"nobuild": status, "why": str(mod)}
    guard = _guard_allocator()
    try:
        engine = compile_module(mod)
    except Exception as e:  # noqa: BLE001
        return {"llvm_compile_error": f"{type(e).__name__}: {e}"[:400]}
    _prob, asg, _f = bridge.problem_of(case)
    fns = bridge.functions_of(mod)
    params = [d.name.name for d in next(iter(fns.values())).parameters]
    oname = case["target"][0]
    ins = {
        nm: C.tensor_from_stored(C.tensor_dims(asg, case["sizes"], nm), case["formats"][nm], s)
        for nm, s in case["inputs"].items()
    }
    omodes, oord = C.fmt_parts(case["formats"][oname])
    odims = C.tensor_dims(asg, case["sizes"], oname)

    def fresh():
        return Tensor(allocate_taco_structure(tuple(0 if m == "d" else 1 for m in omodes), tuple(odims), tuple(oord)))

    rep = {"rc": {}, "out": {}}
    if "evaluate" in kinds and req.get("public_evaluate"):
        # the kernel a user's evaluate() runs: TensorMethod builds and JIT-compiles its own module
        from tensora import BackendCompiler
        from tensora.compile import TensorMethod

        try:
            with bridge.knobs(capacity=case.get("capacity")):
                tm = TensorMethod(_prob, BackendCompiler.llvm)
            if guard is not None:
                guard.guard_forget()
            res = tm(**ins)
            rep["out"]["evaluate_public"] = C.raw_of_tensor(res)
            if guard is not None:
                # inspect and forget the guard zones while the result is alive: once tensora has free()d the arrays
                # the table would describe recycled memory
                rep["guard_zones_overwritten_public"] = int(guard.guard_check())
                guard.guard_forget()
            del res
        except Exception as e:  # noqa: BLE001
            rep["public_evaluate_raised"] = f"{type(e).__name__}: {e}"[:300]
    if "evaluate" in kinds:
        o = fresh()
        args = [o.cffi_tensor if nm == oname else ins[nm].cffi_tensor for nm in params]
        rep["rc"]["evaluate"] = _call(engine, "evaluate", len(params), args)
        rep["out"]["evaluate"] = C.raw_of_tensor(o)
        take_ownership_of_arrays(o.cffi_tensor)
    if "assemble" in kinds and "compute" in kinds:
        o2 = fresh()
        args = [o2.cffi_tensor if nm == oname else ins[nm].cffi_tensor for nm in params]
        rep["rc"]["assemble"] = _call(engine, "assemble", len(params), args)
        r = C.raw_of_tensor(o2)
        r["vals"] = None
        rep["out"]["assemble"] = r
        rep["rc"]["compute"] = _call(engine, "compute", len(params), args)
        rep["out"]["compute"] = C.raw_of_tensor(o2)
        take_ownership_of_arrays(o2.cffi_tensor)
    rep["inputs_after"] = {nm: C.raw_of_tensor(t) for nm, t in ins.items()}
    if guard is not None:
        # every block the JIT-compiled kernels allocated carries a guard zone behind it; check them while the
        # outputs are still alive, then forget the table (the blocks are released by tensora's own free())
        rep["guard_zones_overwritten"] = int(guard.guard_check())
        guard.guard_forget()
    gc.collect()
    return rep


_PAGES = []


def _guarded_array(ctype, values):
    """An array that ends exactly at the end of a mapped page, followed by 1 MiB of inaccessible address space: a read
    or write past its end faults instead of silently hitting whatever the allocator put there."""
    import ctypes
    import mmap

    from tensora.compile import tensor_cdefs

    page = mmap.PAGESIZE
    size = {"int32_t": 4, "double": 8}[ctype] * len(values)
    data_pages = (size + page - 1) // page or 1
    tail = 256 * page
    mm = mmap.mmap(-1, data_pages * page + tail)
    base = ctypes.addressof(ctypes.c_char.from_buffer(mm))
    libc = ctypes.CDLL(None, use_errno=True)
    libc.mprotect.argtypes = [ctypes.c_void_p, ctypes.c_size_t, ctypes.c_int]
    if libc.mprotect(base + data_pages * page, tail, 0) != 0:
        raise OSError("mprotect failed")
    start = base + data_pages * page - size
    arr = tensor_cdefs.cast(ctype + "*", start)
    for k, v in enumerate(values):
        arr[k] = v
    _PAGES.append(mm)  # never unmapped while the worker lives (a handful of pages per program)
    if len(_PAGES) > 64:
        del _PAGES[:32]
    return arr


def llvm_program(req, bridge, C):
    """JIT a pickled IR module (hex) and run its single-tensor function ``evaluate`` on each environment.
    env: {"ints": [..4], "floats": [...], "slots": n} -> vals after the call (as floats)."""
    import pickle

    from tensora.compile import allocate_taco_structure, tensor_cdefs
    from tensora.compile._compile_llvm import compile_module

    mod = pickle.loads(bytes.fromhex(req["module"]))
    try:
        engine = compile_module(mod)
    except Exception as e:  # noqa: BLE001
        return {"llvm_compile_error": f"{type(e).__name__}: {e}"[:400], "where": bridge.innermost_frame(e)}
    outs = []
    for env in req["envs"]:
        ct = allocate_taco_structure((0, 0, 0, 0), (0, 0, 0, 0), (0, 1, 2, 3))
        dims = _guarded_array("int32_t", env["ints"])
        ct.dimensions = dims
        vals = _guarded_array("double", list(env["floats"]) + [0.0] * env["slots"])
        ct.vals = vals
        rc = _call(engine, "evaluate", 1, [ct])
        outs.append({"rc": rc, "vals": list(vals[0 : len(env["floats"]) + env["slots"]]), "ints": list(dims[0:4])})
    return {"outs": outs}


def _operand(spec, C):
    if "tensor" in spec:
        t = spec["tensor"]
        return C.tensor_from_stored(tuple(t["dims"]), t["fmt"], t["stored"])
    v = spec["scalar"]
    return {"int": int, "float": float, "bool": bool}[spec["type"]](v)


def operator_call(call, C, guard=None):
    """{left, right, op in + - * @} -> {"raw":...} | {"raised": name, message}
    guard: the guarded allocator; its zones are inspected while the result is still alive."""
    import operator as O

    fn = {"+": O.add, "-": O.sub, "*": O.mul, "@": O.matmul}[call["op"]]
    try:
        l = _operand(call["left"], C)
        r = _operand(call["right"], C)
    except Exception as e:  # noqa: BLE001
        return {"error": f"operand construction: {type(e).__name__}: {e}"}
    try:
        res = fn(l, r)
    except Exception as e:  # noqa: BLE001
        return {"raised": type(e).__name__, "message": str(e)[:200]}
    try:
        rep = {"raw": C.raw_of_tensor(res)}
    except Exception as e:  # noqa: BLE001
        return {"error": f"result is not a Tensor: {type(res).__name__} {e}"}
    if guard is not None:
        rep["guard_zones_overwritten"] = int(guard.guard_check())
        guard.guard_forget()
    return rep


def cache_history(req, C):
    """steps: {"clear": true} | {"entry": "evaluate"|"method", "assignment", "formats" (ordered pairs, target
    first or not), "inputs": {name: tensor spec}, "kwargs_order": [names]}.  Returns per step the cache counters
    before/after and the raw result."""
    from tensora import evaluate, tensor_method

    from harness import bridge

    bridge.clear_kernel_cache()
    out = []
    for st in req["steps"]:
        if st.get("clear"):
            bridge.clear_kernel_cache()
            out.append({"cleared": True})
            continue
        before = bridge.kernel_cache_info()
        try:
            inputs = {n: C.tensor_from_stored(tuple(st["inputs"][n]["dims"]), st["inputs"][n]["fmt"], st["inputs"][n]["stored"])
                      for n in st["kwargs_order"]}
            fm = dict(st["formats"])
            if st["entry"] == "evaluate":
                res = evaluate(st["assignment"], fm[st["target"]], **inputs)
            else:
                res = tensor_method(st["assignment"], fm)(**inputs)
            after = bridge.kernel_cache_info()
            out.append({"raw": C.raw_of_tensor(res), "hits": after.hits - before.hits, "misses": after.misses - before.misses,
                        "currsize": after.currsize})
        except Exception as e:  # noqa: BLE001
            after = bridge.kernel_cache_info()
            out.append({"raised": f"{type(e).__name__}: {e}"[:300], "hits": after.hits - before.hits,
                        "misses": after.misses - before.misses})
    bridge.clear_kernel_cache()
    return {"steps": out}


def items_of_temporary(case, C):
    """Build the tensor, record what it stores, take items() from a temporary, drop every reference, collect, stir
    the allocator, and only then drain the iterator."""
    import gc

    from harness.props import c09

    coords = [tuple(c) for c in case["coords"]]
    vals = [float(v) for v in case["vals"]]
    dims = tuple(case["dims"])
    try:
        t = c09.build(case["ctor"], coords, vals, dims, case["fmt"])
    except Exception as e:  # noqa: BLE001
        return {"skipped": f"constructor raised {type(e).__name__}"}
    alive = [[list(c), v] for c, v in t.items()]
    del t
    try:
        it = c09.build(case["ctor"], coords, vals, dims, case["fmt"]).items()
        gc.collect()
        junk = [c09.build("aos", [(k % 3,)], [float(k)], (3,), "s") for k in range(20)]
        junk2 = [bytearray(32 + 8 * k) for k in range(64)]
        out = [[list(c), v] for c, v in it]
        del junk, junk2
        return {"items": out, "stored_while_alive": alive}
    except Exception as e:  # noqa: BLE001
        return {"raised": f"{type(e).__name__}: {e}"[:200]}


def main():
    out = os.fdopen(os.dup(1), "w")
    os.dup2(2, 1)
    sys.path.insert(0, os.path.dirname(os.path.dirname(os.path.dirname(os.path.abspath(__file__)))))
    from harness import bridge
    from harness import cases as C

    bridge.ensure_tensora()
    from tensora import BackendCompiler, tensor_method

    for line in sys.stdin:
        req = json.loads(line)
        op = req["op"]
        try:
            if op == "ping":
                rep = {"ok": True}
            elif op == "evaluate_roundtrip":
                case = req["case"]
                _prob, asg, _f = bridge.problem_of(case)
                cap = req.get("capacity")
                fn = None
                with bridge.knobs(capacity=cap):
                    bridge.clear_kernel_cache()
                    try:
                        fn = tensor_method(case["assignment"], dict(case["formats"]), BackendCompiler.llvm)
                    except Exception as e:  # noqa: BLE001
                        rep = {"refused": type(e).__name__, "message": str(e)[:200]}
                bridge.clear_kernel_cache()
                if fn is not None:
                    args = {
                        nm: C.tensor_from_stored(C.tensor_dims(asg, case["sizes"], nm), case["formats"][nm], s)
                        for nm, s in case["inputs"].items()
                    }
                    try:
                        res = fn(**args)
                    except Exception as e:  # noqa: BLE001
                        rep = {"raised": type(e).__name__, "message": str(e)[:200]}
                    else:
                        raw = C.raw_of_tensor(res)
                        rep = {"raw": raw}
                        if not raw["problem"] and not C.validate_arrays(
                            raw["dims"], raw["ordering"], raw["modes"], raw["levels"], len(raw["vals"])
                        ):
                            rep["hence"] = hence_clause(res, case, C)
                        else:
                            rep["hence"] = {}
            elif op == "llvm_kernels":
                rep = llvm_kernels(req, bridge, C)
            elif op == "operators":
                cap = req.get("capacity")
                guard = _guard_allocator() if req.get("guard") else None
                if guard is not None:
                    guard.guard_forget()
                with bridge.knobs(capacity=cap):
                    if cap is not None:
                        bridge.clear_kernel_cache()  # kernels generated at another capacity must not be reused
                    rep = {"results": [operator_call(c, C, guard) for c in req["calls"]]}
                if cap is not None:
                    bridge.clear_kernel_cache()
            elif op == "cache_history":
                rep = cache_history(req, C)
            elif op == "items_of_temporary":
                rep = {"results": [items_of_temporary(c, C) for c in req["cases"]]}
            elif op == "llvm_program":
                rep = llvm_program(req, bridge, C)
            else:
                rep = {"error": f"unknown op {op}"}
        except Exception as e:  # noqa: BLE001
            import traceback

            rep = {"error": f"{type(e).__name__}: {e}", "trace": traceback.format_exc()[-1500:]}
        out.write(json.dumps(rep) + "\n")
        out.flush()


if __name__ == "__main__":
    main()
