"""Child process for C14: runs workloads of evaluate calls sequentially (fresh cache each) and then
concurrently - either under a line-level cooperative scheduler whose choices come from the parent
(controlled mode) or with 16 free-running threads (stress mode) - and returns raw results."""
from __future__ import annotations

import json
import os
import sys
import threading
import time


class Sched:
    """Token-passing scheduler: exactly one registered thread runs between two yield points."""

    def __init__(self, choices, pause=None):
        # pause = (tid, k): thread tid is suspended after its k-th yield point *inside tensora/compile/* (the modules that
        # hold shared state) until every other thread has finished or is blocked - one long preemption at a chosen point,
        # the schedule that exposes check-then-act sequences
        self.pause = pause
        self.paused_at = None
        self.alive = set()
        self.compile_yields = {}
        self.cv = threading.Condition()
        self.current = None
        self.waiting = set()
        self.choices = list(choices)
        self.trace = []
        self.switches = 0
        self.pos = 0
        self.progress = 0
        self.stolen = 0

    def _pick(self):
        ready = sorted(self.waiting)
        if self.pause is not None and len(ready) > 1 and self.pause[0] in ready \
                and self.compile_yields.get(self.pause[0], 0) >= self.pause[1]:
            ready.remove(self.pause[0])
            if self.paused_at is None:
                self.paused_at = self.compile_yields.get(self.pause[0], 0)
        if not ready:
            self.current = None
            return
        # the choice list is cycled, so a short list still drives the whole run
        k = self.choices[self.pos % len(self.choices)] % len(ready) if self.choices else 0
        self.pos += 1
        nxt = ready[k]
        if self.trace and self.trace[-1] != nxt:
            self.switches += 1
        self.current = nxt
        if len(self.trace) < 4000:
            self.trace.append(nxt)
        self.cv.notify_all()

    def arrive(self, tid, n):
        """Start line: nobody runs before all n threads are here (otherwise the first thread, which holds the GIL while the
        others are still being started, runs a short call to completion before there is anybody to interleave with)."""
        with self.cv:
            self.waiting.add(tid)
            self.alive.add(tid)
            self.cv.notify_all()
            t0 = time.time()
            while len(self.waiting) < n and self.current is None and time.time() - t0 < 10:
                self.cv.wait(0.05)

    def yield_(self, tid, in_compile=False):
        with self.cv:
            if in_compile:
                self.compile_yields[tid] = self.compile_yields.get(tid, 0) + 1
            self.progress += 1
            self.waiting.add(tid)
            if self.current == tid or self.current is None:
                self._pick()
            while self.current != tid:
                seen = self.progress
                if not self.cv.wait(0.25) and self.progress == seen and self.current != tid and not self._held_back(tid):
                    # the thread holding the token has not reached a yield point for a while: it is blocked in
                    # something the tracer does not see (an Event, a Condition, a lock of its own, a long native
                    # call).  Blocking is legal; hand the token on instead of dead-locking the schedule.
                    self.stolen += 1
                    self.progress += 1
                    self._pick()
            self.waiting.discard(tid)

    def _held_back(self, tid):
        """The thread a 'pause' schedule suspends stays suspended while any other thread is still alive, even when the
        thread that holds the token is in a long native call (it must not take the token over then)."""
        return (self.pause is not None and tid == self.pause[0] and self.compile_yields.get(tid, 0) >= self.pause[1]
                and bool(self.alive - {tid}))

    def done(self, tid):
        with self.cv:
            self.alive.discard(tid)
            self.waiting.discard(tid)
            if self.current == tid:
                self.current = None
                self._pick()


class CoopLock:
    """Drop-in for the module-level threading.Lock around FFI.compile: never blocks while holding the token."""

    def __init__(self, sched_ref):
        self._l = threading.Lock()
        self._sched_ref = sched_ref

    def acquire(self, blocking=True, timeout=-1):
        while not self._l.acquire(False):
            s = self._sched_ref.get("sched")
            tid = self._sched_ref.get("tids", {}).get(threading.get_ident())
            if s is not None and tid is not None:
                s.yield_(tid)
        return True

    def release(self):
        self._l.release()

    def __enter__(self):
        self.acquire()
        return self

    def __exit__(self, *a):
        self.release()


def main():
    out = os.fdopen(os.dup(1), "w")
    os.dup2(2, 1)
    sys.path.insert(0, os.path.dirname(os.path.dirname(os.path.dirname(os.path.abspath(__file__)))))
    from harness import bridge
    from harness import cases as C

    bridge.ensure_tensora()
    import tensora.compile._compile_cffi as CC
    import tensora.compile._porcelain as P
    from tensora.compile import evaluate_cffi, evaluate_tensora

    # every Python line of the tensora package is a yield point (compile/, tensor.py, problem.py, ...)
    watch_dir = os.path.dirname(os.path.dirname(P.__file__))
    sched_ref = {}
    real_lock = CC.lock

    def build_inputs(call):
        return {n: C.tensor_from_stored(tuple(t["dims"]), t["fmt"], t["stored"]) for n, t in call["inputs"].items()}

    def do_call(call, inputs=None):
        # (under the scheduler the operands are built before the threads start, so that every yield point belongs to the
        # call under test and pause points are counted from its first line)
        if inputs is None:
            inputs = build_inputs(call)
        if call.get("entry") == "operator":
            # Tensor operators with a Python number on one side (they synthesise an assignment and call evaluate)
            import operator as O

            t = inputs["t"]
            fn = {"+": O.add, "-": O.sub, "*": O.mul}[call["op"]]
            res = fn(t, call["scalar"]) if call["side"] == "r" else fn(call["scalar"], t)
        elif call.get("entry") == "method":
            # a compiled tensor method obtained through tensor_method() and called directly
            from tensora import BackendCompiler, tensor_method

            target = call["assignment"].split("(", 1)[0].strip()
            fm = {target: call["out_fmt"], **{n: t["fmt"] for n, t in call["inputs"].items()}}
            method = tensor_method(call["assignment"], fm, BackendCompiler[call["backend"]])
            res = method(**inputs)
        else:
            fn = evaluate_cffi if call["backend"] == "cffi" else evaluate_tensora
            res = fn(call["assignment"], call["out_fmt"], **inputs)
        return C.raw_of_tensor(res)

    def safe_call(call, inputs=None):
        try:
            return {"raw": do_call(call, inputs)}
        except BaseException as e:  # noqa: BLE001
            return {"raised": f"{type(e).__name__}: {e}"[:300]}

    def sequential(workload):
        outs = []
        for call in workload:
            bridge.clear_kernel_cache()
            outs.append(safe_call(call))
        bridge.clear_kernel_cache()
        return outs

    def fill_cache(n):
        """n further distinct problems, so that what was cached before becomes the least recently used part of a full
        kernel cache (functools.lru_cache keeps 128 entries by default): evictions happen during the concurrent phase."""
        from tensora import Tensor

        g = Tensor.from_dok({(0,): 1.0, (2,): 2.0}, dimensions=(3,), format="s")
        for k in range(n):
            evaluate_tensora(f"f(i) = g(i) * {k + 2}", "s", g=g)

    def controlled(workload, choices, warm=False, full_cache=False, pause=None):
        bridge.clear_kernel_cache()
        if warm:
            # every kernel is compiled and cached beforehand: the concurrent calls share the cached objects
            # (with a full cache the last call stays unseen, so that it misses and evicts during the concurrent phase)
            for call in (workload[:-1] if full_cache else workload):
                safe_call(call)
        if full_cache:
            # distinct problems warmed so far (whatever the cache is made of, it then holds exactly that many entries)
            have = len({json.dumps([c.get("assignment"), c.get("out_fmt"), sorted((n, t["fmt"]) for n, t in c["inputs"].items()),
                                    c.get("backend"), c.get("entry") == "operator" and [c.get("op"), c.get("side"), c.get("scalar")]])
                        for c in workload[:-1]})
            fill_cache(max(0, 128 - have))
        s = Sched(choices, tuple(pause) if pause else None)
        sched_ref["sched"] = s
        sched_ref["tids"] = {}
        CC.lock = CoopLock(sched_ref)
        results = [None] * len(workload)
        prebuilt = [build_inputs(call) for call in workload]

        compile_dir = os.path.dirname(P.__file__)

        def tracer(tid):
            def local(frame, event, arg):
                if event == "line":
                    s.yield_(tid)
                return local

            def local_compile(frame, event, arg):
                if event == "line":
                    s.yield_(tid, True)
                return local_compile

            def glob(frame, event, arg):
                fn = frame.f_code.co_filename
                if fn.startswith(compile_dir):
                    return local_compile
                if fn.startswith(watch_dir):
                    return local
                return None

            return glob

        def body(tid):
            sched_ref["tids"][threading.get_ident()] = tid
            sys.settrace(tracer(tid))
            try:
                s.arrive(tid, len(workload))
                s.yield_(tid)
                results[tid] = safe_call(workload[tid], prebuilt[tid])
            finally:
                sys.settrace(None)
                s.done(tid)

        ths = [threading.Thread(target=body, args=(t,), daemon=True) for t in range(len(workload))]
        for t in ths:
            t.start()
        hung = False
        for t in ths:
            t.join(120)
            hung = hung or t.is_alive()
        CC.lock = real_lock
        sched_ref.clear()
        return results, {"yield_points": len(s.trace), "switches": s.switches, "hung": hung, "token_handed_on": s.stolen,
                         "compile_yields": dict(s.compile_yields), "paused_at": s.paused_at}

    def stress(workload, nthreads, rounds):
        all_results = []
        old = sys.getswitchinterval()
        sys.setswitchinterval(1e-6)
        try:
            for _ in range(rounds):
                bridge.clear_kernel_cache()
                results = [None] * len(workload)
                barrier = threading.Barrier(min(nthreads, len(workload)))
                chunks = [list(range(k, len(workload), nthreads)) for k in range(min(nthreads, len(workload)))]

                def body(idxs):
                    barrier.wait()
                    for i in idxs:
                        results[i] = safe_call(workload[i])

                ths = [threading.Thread(target=body, args=(c,), daemon=True) for c in chunks]
                for t in ths:
                    t.start()
                hung = False
                for t in ths:
                    t.join(300)
                    hung = hung or t.is_alive()
                all_results.append({"results": results, "hung": hung})
                if hung:
                    break
        finally:
            sys.setswitchinterval(old)
        return all_results

    def gen_text(g):
        """generate_code for {assignment, formats (ordered pairs), kinds, language} -> sha1 of the text | refusal name"""
        import hashlib

        from returns.result import Failure
        from tensora.expression import parse_assignment
        from tensora.format import parse_format
        from tensora.generate import Language, generate_code
        from tensora.kernel_type import KernelType
        from tensora.problem import make_problem

        try:
            asg = parse_assignment(g["assignment"]).unwrap()
            prob = make_problem(asg, {n: parse_format(f).unwrap() for n, f in g["formats"]}).unwrap()
            res = generate_code(prob, [KernelType[k] for k in g["kinds"]], Language[g["language"]])
            if isinstance(res, Failure):
                return {"refused": type(res.failure()).__name__}
            return {"sha1": hashlib.sha1(res.unwrap().encode()).hexdigest(), "chars": len(res.unwrap())}
        except BaseException as e:  # noqa: BLE001
            return {"raised": f"{type(e).__name__}: {e}"[:300]}

    def gen_concurrent(workload, choices, nthreads, rounds, concurrent_first=False):
        """The same generate_code requests alone, then under the line-level scheduler (choices given) or free-running.
        concurrent_first: the concurrent run comes first (fresh process), the sequential reference afterwards."""
        if concurrent_first:
            first = gen_concurrent(workload, choices, nthreads, 1)
            seq = [gen_text(g) for g in workload]
            first["sequential"] = seq
            return first
        seq = [gen_text(g) for g in workload]
        if choices is not None:
            s = Sched(choices)
            results = [None] * len(workload)

            def tracer(tid):
                def local(frame, event, arg):
                    if event == "line":
                        s.yield_(tid)
                    return local

                def glob(frame, event, arg):
                    return local if frame.f_code.co_filename.startswith(watch_dir) else None

                return glob

            def body(tid):
                sys.settrace(tracer(tid))
                try:
                    s.arrive(tid, len(workload))
                    s.yield_(tid)
                    results[tid] = gen_text(workload[tid])
                finally:
                    sys.settrace(None)
                    s.done(tid)

            ths = [threading.Thread(target=body, args=(t,), daemon=True) for t in range(len(workload))]
            for t in ths:
                t.start()
            hung = False
            for t in ths:
                t.join(120)
                hung = hung or t.is_alive()
            return {"sequential": seq, "rounds": [{"results": results, "hung": hung}], "switches": s.switches}
        out = []
        old = sys.getswitchinterval()
        sys.setswitchinterval(1e-6)
        try:
            for _ in range(rounds):
                results = [None] * len(workload)
                k = min(nthreads, len(workload))
                barrier = threading.Barrier(k)

                def body(idxs):
                    barrier.wait()
                    for i in idxs:
                        results[i] = gen_text(workload[i])

                ths = [threading.Thread(target=body, args=(list(range(q, len(workload), k)),), daemon=True) for q in range(k)]
                for t in ths:
                    t.start()
                hung = False
                for t in ths:
                    t.join(300)
                    hung = hung or t.is_alive()
                out.append({"results": results, "hung": hung})
                if hung:
                    break
        finally:
            sys.setswitchinterval(old)
        return {"sequential": seq, "rounds": out}

    for line in sys.stdin:
        req = json.loads(line)
        try:
            if req["op"] == "generate":
                rep = gen_concurrent(req["workload"], req.get("choices"), req.get("nthreads", 8), req.get("rounds", 2),
                                     req.get("concurrent_first", False))
            elif req["op"] == "controlled":
                if req.get("concurrent_first"):
                    # fresh process: the scheduled concurrent run is the first thing that ever happens in it
                    res, info = controlled(req["workload"], req["choices"], False, False, req.get("pause"))
                    seq = sequential(req["workload"])
                else:
                    seq = sequential(req["workload"])
                    res, info = controlled(req["workload"], req["choices"], req.get("warm", False), req.get("full_cache", False),
                                           req.get("pause"))
                rep = {"sequential": seq, "concurrent": res, "info": info}
            elif req["op"] == "stress":
                if req.get("concurrent_first"):
                    # a process that has never generated, compiled or run anything: the very first evaluations of the
                    # process race each other (lazy one-time initialisation), the sequential reference comes afterwards
                    rounds = stress(req["workload"], req["nthreads"], 1)
                    seq = sequential(req["workload"])
                    rounds += stress(req["workload"], req["nthreads"], max(0, req["rounds"] - 1))
                    rep = {"sequential": seq, "rounds": rounds}
                else:
                    seq = sequential(req["workload"])
                    rep = {"sequential": seq, "rounds": stress(req["workload"], req["nthreads"], req["rounds"])}
            else:
                rep = {"error": "unknown op"}
        except Exception as e:  # noqa: BLE001
            import traceback

            rep = {"error": f"{type(e).__name__}: {e}", "trace": traceback.format_exc()[-1500:]}
        out.write(json.dumps(rep) + "\n")
        out.flush()


if __name__ == "__main__":
    main()
