"""Parent side of the native worker: one child, restarted when it dies; a death is a result."""
from __future__ import annotations

import json
import os
import select
import subprocess
import sys

HERE = os.path.dirname(os.path.abspath(__file__))
PY = os.environ.get("VERIF_PYTHON", "/venv/bin/python")


class Worker:
    def __init__(self, module="harness.native.worker", env=None, timeout=60.0):
        self.module = module
        self.env = env
        self.timeout = timeout
        self.proc = None
        self.restarts = 0

    def start(self):
        env = dict(os.environ)
        env.setdefault("PYTHONHASHSEED", "0")
        root = os.path.dirname(os.path.dirname(HERE))
        env["PYTHONPATH"] = root + os.pathsep + env.get("PYTHONPATH", "")
        if self.env:
            env.update(self.env)
        self.proc = subprocess.Popen(
            [PY, "-m", self.module], stdin=subprocess.PIPE, stdout=subprocess.PIPE,
            stderr=subprocess.DEVNULL, env=env, cwd=root, text=True, bufsize=1,
        )

    def call(self, req, timeout=None, idempotent=True):
        """-> reply dict, or {"crash": description} when the child died or hung on this request.
        A time-out alone is never a verdict: the request is re-run in a fresh child with a doubled limit, twice;
        only three time-outs in a row are reported (as a hang)."""
        t = timeout or self.timeout
        rep = self._call_once(req, t)
        attempts = 1
        while idempotent and rep.get("crash") == "timeout" and attempts < 3:
            t *= 2
            attempts += 1
            rep = self._call_once(req, t)
        if rep.get("crash") == "timeout":
            rep["crash"] = f"timeout ({attempts} attempts, last limit {t:.0f}s)"
        return rep

    def _call_once(self, req, timeout):
        if self.proc is None or self.proc.poll() is not None:
            self.start()
        try:
            self.proc.stdin.write(json.dumps(req) + "\n")
            self.proc.stdin.flush()
        except (BrokenPipeError, OSError):
            return self._dead("broken pipe on send")
        t = timeout
        r, _, _ = select.select([self.proc.stdout], [], [], t)
        if not r:
            self.proc.kill()
            self.proc.wait()
            self.restarts += 1
            self.proc = None
            return {"crash": "timeout", "timeout_s": t}
        line = self.proc.stdout.readline()
        if not line:
            return self._dead("eof")
        return json.loads(line)

    def _dead(self, why):
        rc = self.proc.wait() if self.proc else None
        self.proc = None
        self.restarts += 1
        return {"crash": f"{why} rc={rc}", "returncode": rc}

    def close(self):
        if self.proc is not None and self.proc.poll() is None:
            try:
                self.proc.stdin.close()
                self.proc.wait(timeout=5)
            except Exception:
                self.proc.kill()
        self.proc = None
