"""Disposable child process that executes real (native) tensora code.

Protocol: one JSON object per line on stdin, one JSON reply per line on stdout (fd 3 duplicate, so
stray prints from libraries cannot corrupt it).  Ops:
  evaluate   {case, backend}            -> tensor_method(...)(**inputs) read back raw
  ping
"""
from __future__ import annotations

import json
import os
import sys


def main():
    out = os.fdopen(os.dup(1), "w")
    os.dup2(2, 1)  # anything printed by libraries goes to stderr
    sys.path.insert(0, os.path.dirname(os.path.dirname(os.path.dirname(os.path.abspath(__file__)))))
    from harness import bridge
    from harness import cases as C

    bridge.ensure_tensora()
    from tensora import BackendCompiler, tensor_method

    for line in sys.stdin:
        req = json.loads(line)
        op = req["op"]
        try:
            if op == "ping":
                rep = {"ok": True}
            elif op == "evaluate":
                case = req["case"]
                _prob, asg, _f = bridge.problem_of(case)
                backend = BackendCompiler[req.get("backend", "llvm")]
                cap = req.get("capacity")
                with bridge.knobs(capacity=cap):
                    if cap is not None:
                        bridge.clear_kernel_cache()
                    try:
                        fn = tensor_method(case["assignment"], dict(case["formats"]), backend)
                    except Exception as e:  # noqa: BLE001
                        rep = {"refused": type(e).__name__, "message": str(e)[:200],
                               "where": bridge.innermost_frame(e)}
                        fn = None
                if fn is not None:
                    args = {
                        nm: C.tensor_from_stored(C.tensor_dims(asg, case["sizes"], nm), case["formats"][nm], s)
                        for nm, s in case["inputs"].items()
                    }
                    try:
                        res = fn(**args)
                    except Exception as e:  # noqa: BLE001
                        rep = {"raised": type(e).__name__, "message": str(e)[:200],
                               "where": bridge.innermost_frame(e)}
                    else:
                        raw = C.raw_of_tensor(res)
                        after = {nm: C.raw_of_tensor(t) for nm, t in args.items()}
                        rep = {"raw": raw, "inputs_after": after}
                if cap is not None:
                    bridge.clear_kernel_cache()
            else:
                rep = {"error": f"unknown op {op}"}
        except Exception as e:  # noqa: BLE001
            import traceback

            rep = {"error": f"{type(e).__name__}: {e}", "trace": traceback.format_exc()[-1500:]}
        out.write(json.dumps(rep) + "\n")
        out.flush()


if __name__ == "__main__":
    main()
