"""C batch harness: emitted C of many kernels in one translation unit + a generated driver,
compiled with gcc (optionally ASan+UBSan), each case run in a forked child (DESIGN.md §2.4)."""
from __future__ import annotations

import os
import re
import shutil
import struct
import subprocess
import tempfile

from .. import bridge
from .. import cases as C

STRICT_FLAGS = [
    "-std=c11",
    "-Werror=implicit-function-declaration",
    "-Werror=int-conversion",
    "-Werror=incompatible-pointer-types",
    "-Wno-unused-variable",
    "-Wno-unknown-pragmas",
]
SAN_FLAGS = ["-O1", "-g", "-fsanitize=address,undefined", "-fno-sanitize-recover=all", "-fno-omit-frame-pointer"]
PLAIN_FLAGS = ["-O2"]


def preamble():
    bridge.ensure_tensora()
    from tensora.compile._cffi_ownership import taco_type_header
    from tensora.compile._compile_cffi import taco_define_header

    return (
        "#include <stdint.h>\n#include <stdlib.h>\n#include <string.h>\n#include <stdio.h>\n"
        "#include <unistd.h>\n#include <sys/wait.h>\n" + taco_define_header + taco_type_header
    )


DRIVER_PRELUDE = r"""
typedef struct {
  int order; int32_t dims[4]; int32_t ordering[4]; int modes[4];
  int npos[4]; const int32_t* pos[4]; int ncrd[4]; const int32_t* crd[4];
  int nvals; const uint64_t* vals;
} tdesc;

static void* dupmem(const void* src, size_t n) { void* p = malloc(n ? n : 1); if (n) memcpy(p, src, n); return p; }

static taco_tensor_t* build(const tdesc* d, int is_output) {
  taco_tensor_t* t = malloc(sizeof(taco_tensor_t));
  t->order = d->order;
  t->dimensions = dupmem(d->dims, sizeof(int32_t) * d->order);
  t->mode_ordering = dupmem(d->ordering, sizeof(int32_t) * d->order);
  t->mode_types = malloc(sizeof(taco_mode_t) * (d->order ? d->order : 1));
  t->indices = malloc(sizeof(int32_t**) * (d->order ? d->order : 1));
  for (int l = 0; l < d->order; l++) {
    t->mode_types[l] = d->modes[l] ? taco_mode_sparse : taco_mode_dense;
    if (d->modes[l]) {
      t->indices[l] = malloc(sizeof(int32_t*) * 2);
      if (is_output) { t->indices[l][0] = NULL; t->indices[l][1] = NULL; }
      else {
        t->indices[l][0] = dupmem(d->pos[l], sizeof(int32_t) * d->npos[l]);
        t->indices[l][1] = dupmem(d->crd[l], sizeof(int32_t) * d->ncrd[l]);
      }
    } else {
      t->indices[l] = malloc(1);
    }
  }
  t->vals = is_output ? NULL : dupmem(d->vals, sizeof(double) * d->nvals);
  return t;
}

static int unchanged(const tdesc* d, taco_tensor_t* t) {
  if (t->order != d->order) return 0;
  if (memcmp(t->dimensions, d->dims, sizeof(int32_t) * d->order)) return 0;
  if (memcmp(t->mode_ordering, d->ordering, sizeof(int32_t) * d->order)) return 0;
  for (int l = 0; l < d->order; l++) if (d->modes[l]) {
    if (memcmp(t->indices[l][0], d->pos[l], sizeof(int32_t) * d->npos[l])) return 0;
    if (d->ncrd[l] && memcmp(t->indices[l][1], d->crd[l], sizeof(int32_t) * d->ncrd[l])) return 0;
  }
  if (d->nvals && memcmp(t->vals, d->vals, sizeof(double) * d->nvals)) return 0;
  return 1;
}

/* prints structure (and values when with_vals) reading exactly what the structure describes */
static void dump(const char* tag, taco_tensor_t* t, int with_vals) {
  long n = 1;
  for (int l = 0; l < t->order; l++) {
    int32_t dim = t->dimensions[t->mode_ordering[l]];
    if (t->mode_types[l] == taco_mode_dense) { n *= dim; continue; }
    int32_t* pos = t->indices[l][0]; int32_t* crd = t->indices[l][1];
    if (!pos) { printf("OUT %s BAD pos-null level %d\n", tag, l); return; }
    printf("OUT %s pos %d :", tag, l);
    for (long k = 0; k <= n; k++) printf(" %d", pos[k]);
    printf("\n");
    long nn = pos[n];
    for (long k = 0; k < n; k++) if (pos[k] > pos[k+1] || pos[k] < 0) { printf("OUT %s BAD pos-not-monotone level %d\n", tag, l); return; }
    if (nn > 10000000) { printf("OUT %s BAD pos-huge level %d\n", tag, l); return; }
    if (nn > 0 && !crd) { printf("OUT %s BAD crd-null level %d\n", tag, l); return; }
    printf("OUT %s crd %d :", tag, l);
    for (long k = 0; k < nn; k++) printf(" %d", crd[k]);
    printf("\n");
    n = nn;
  }
  if (with_vals) {
    if (n > 0 && !t->vals) { printf("OUT %s BAD vals-null\n", tag); return; }
    printf("OUT %s vals :", tag);
    for (long k = 0; k < n; k++) { uint64_t u; memcpy(&u, &t->vals[k], 8); printf(" %016llx", (unsigned long long)u); }
    printf("\n");
  }
  printf("OUT %s DONE\n", tag);
}
"""


def _arr(name, ctype, values):
    body = ", ".join(str(v) for v in values) if values else "0"
    return f"  static const {ctype} {name}[] = {{{body}}};\n"


def _bits(v):
    return struct.unpack("<Q", struct.pack("<d", float(v)))[0]


def tensor_desc_c(var, dims, fmt, stored):
    """C initialiser code for a tdesc named ``var``."""
    modes, ordering = C.fmt_parts(fmt)
    order = len(dims)
    pre = ""
    pos_e, crd_e, npos, ncrd = [], [], [], []
    for l in range(4):
        if l < order and modes[l] == "s" and stored is not None:
            p, c = stored["levels"][l]
            pre += _arr(f"{var}_pos{l}", "int32_t", p)
            pre += _arr(f"{var}_crd{l}", "int32_t", c)
            pos_e.append(f"{var}_pos{l}")
            crd_e.append(f"{var}_crd{l}")
            npos.append(len(p))
            ncrd.append(len(c))
        else:
            pos_e.append("0")
            crd_e.append("0")
            npos.append(0)
            ncrd.append(0)
    if stored is not None:
        pre += _arr(f"{var}_vals", "uint64_t", [f"0x{_bits(v):016x}ULL" for v in stored["vals"]])
        nvals, vals_e = len(stored["vals"]), f"{var}_vals"
    else:
        nvals, vals_e = 0, "0"
    pad = lambda xs: list(xs) + [0] * (4 - len(xs))  # noqa: E731
    init = (
        f"  static const tdesc {var} = {{{order}, {{{', '.join(map(str, pad(dims)))}}}, "
        f"{{{', '.join(map(str, pad(ordering)))}}}, {{{', '.join('1' if m == 's' else '0' for m in pad(modes))}}}, "
        f"{{{', '.join(map(str, npos))}}}, {{{', '.join(pos_e)}}}, {{{', '.join(map(str, ncrd))}}}, "
        f"{{{', '.join(crd_e)}}}, {nvals}, {vals_e}}};\n"
    ).replace("'s'", "1")
    return pre + init


def kernel_c(module, prefix, text=None):
    """text: C source obtained elsewhere (the public generate_code path) instead of printing ``module`` here."""
    bridge.ensure_tensora()
    from tensora.codegen import ir_to_c

    if text is None:
        text = ir_to_c(module)
    return re.sub(r"\b(evaluate|assemble|compute)\(", lambda m: f"{prefix}_{m.group(1)}(", text)


def case_function(n, case, module, kinds, c_text=None):
    """C source: renamed kernels + a ``case_n`` driver function."""
    _prob, asg, _f = bridge.problem_of(case)
    fns = bridge.functions_of(module)
    params = [d.name.name for d in next(iter(fns.values())).parameters]
    oname = case["target"][0]
    src = kernel_c(module, f"k{n}", c_text) + "\n\n"
    body = ""
    for nm in params:
        dims = C.tensor_dims(asg, case["sizes"], nm)
        body += tensor_desc_c(f"d_{nm}", dims, case["formats"][nm], None if nm == oname else case["inputs"][nm])
    args = ", ".join(f"t_{nm}" if nm != oname else "OUT" for nm in params)
    for nm in params:
        if nm != oname:
            body += f"  taco_tensor_t* t_{nm} = build(&d_{nm}, 0);\n"

    def chk_inputs(tag):
        s = ""
        for nm in params:
            if nm != oname:
                s += f'  if (!unchanged(&d_{nm}, t_{nm})) printf("INPUT-MODIFIED {tag} {nm}\\n");\n'
        return s

    if "evaluate" in kinds:
        body += f"  taco_tensor_t* o1 = build(&d_{oname}, 1);\n"
        body += f'  printf("RC evaluate %d\\n", k{n}_evaluate({args.replace("OUT", "o1")}));\n'
        body += '  dump("evaluate", o1, 1);\n' + chk_inputs("evaluate")
    if "assemble" in kinds and "compute" in kinds:
        body += f"  taco_tensor_t* o2 = build(&d_{oname}, 1);\n"
        body += f'  printf("RC assemble %d\\n", k{n}_assemble({args.replace("OUT", "o2")}));\n'
        body += '  dump("assemble", o2, 0);\n' + chk_inputs("assemble")
        body += f'  printf("RC compute %d\\n", k{n}_compute({args.replace("OUT", "o2")}));\n'
        body += '  dump("compute", o2, 1);\n' + chk_inputs("compute")
    src += f"static void case_{n}(void) {{\n{body}}}\n\n"
    return src


def main_function(ns):
    calls = "".join(f"    case {n}: case_{n}(); break;\n" for n in ns)
    return (
        "static void run_case(int n) {\n  switch (n) {\n" + calls + "  }\n}\n\n"
        "int main(int argc, char** argv) {\n"
        "  setvbuf(stdout, NULL, _IONBF, 0);\n"
        f"  static const int all[] = {{{', '.join(map(str, ns)) or '0'}}};\n"
        f"  for (int i = 0; i < {len(ns)}; i++) {{\n"
        '    printf("CASE %d BEGIN\\n", all[i]);\n'
        "    pid_t pid = fork();\n"
        "    if (pid == 0) { dup2(1, 2); alarm(20); run_case(all[i]); _exit(0); }\n"
        "    int status = 0; waitpid(pid, &status, 0);\n"
        '    if (WIFSIGNALED(status)) printf("CASE %d END signal %d\\n", all[i], WTERMSIG(status));\n'
        '    else printf("CASE %d END exit %d\\n", all[i], WEXITSTATUS(status));\n'
        "  }\n  return 0;\n}\n"
    )


class Batch:
    """Collect cases, compile once, run, parse."""

    def __init__(self, sanitize=True, cc="gcc"):
        self.parts = []
        self.ns = []
        self.sanitize = sanitize
        self.cc = cc
        self.dir = None

    def add(self, n, case, module, kinds=("evaluate", "assemble", "compute"), c_text=None):
        self.parts.append(case_function(n, case, module, kinds, c_text))
        self.ns.append(n)

    def add_raw(self, n, source):
        """source must define ``static void case_<n>(void)``."""
        self.parts.append(source)
        self.ns.append(n)

    def source(self, exclude=()):
        keep = [(n, p) for n, p in zip(self.ns, self.parts) if n not in exclude]
        return preamble() + DRIVER_PRELUDE + "\n".join(p for _n, p in keep) + main_function([n for n, _p in keep])

    def build_and_run_isolating(self, timeout=600):
        """Like build_and_run, but when the translation unit does not compile, find the cases whose own
        source is rejected (each compiled alone), drop them and run the rest.
        -> ({n: compiler message} for rejected cases, {n: parsed result})"""
        err, res = self.build_and_run(timeout)
        if err is None:
            return {}, res
        rejected = {}
        for n, part in zip(self.ns, self.parts):
            one = Batch(self.sanitize, self.cc)
            one.parts, one.ns = [part], [n]
            e1, _ = one.build_and_run(timeout, compile_only=True)
            if e1 is not None:
                rejected[n] = e1
        if not rejected:
            raise bridge.HarnessError("C batch does not compile although every case compiles alone:\n" + err)
        err2, res = self.build_and_run(timeout, exclude=set(rejected))
        if err2 is not None:
            raise bridge.HarnessError("C batch does not compile after removing rejected cases:\n" + err2)
        return rejected, res

    def build_and_run(self, timeout=600, exclude=(), compile_only=False):
        """-> (compile_error or None, {n: parsed result})"""
        self.dir = tempfile.mkdtemp(prefix="verif_cb_")
        try:
            src = os.path.join(self.dir, "batch.c")
            exe = os.path.join(self.dir, "batch")
            with open(src, "w") as fh:
                fh.write(self.source(exclude))
            flags = STRICT_FLAGS + (SAN_FLAGS if self.sanitize else PLAIN_FLAGS)
            cp = subprocess.run([self.cc, *flags, "-o", exe, src], capture_output=True, text=True, timeout=timeout)
            if cp.returncode != 0:
                return cp.stderr[-3000:], {}
            if compile_only:
                return None, {}
            env = dict(os.environ)
            env["ASAN_OPTIONS"] = "detect_leaks=0:abort_on_error=0:exitcode=99:allocator_may_return_null=1"
            env["UBSAN_OPTIONS"] = "print_stacktrace=0:halt_on_error=1:exitcode=98"
            rp = subprocess.run([exe], capture_output=True, text=True, timeout=timeout, env=env)
            return None, parse_output(rp.stdout)
        finally:
            shutil.rmtree(self.dir, ignore_errors=True)


def parse_output(text):
    res = {}
    cur = None
    for line in text.splitlines():
        if line.startswith("CASE ") and line.endswith(" BEGIN"):
            cur = int(line.split()[1])
            res[cur] = {"rc": {}, "out": {}, "bad": [], "input_modified": [], "status": None, "log": []}
            continue
        if cur is None:
            continue
        r = res[cur]
        if line.startswith("CASE ") and " END " in line:
            r["status"] = line.split(" END ", 1)[1]
            cur = None
        elif line.startswith("RC "):
            _x, kind, v = line.split()
            r["rc"][kind] = int(v)
        elif line.startswith("OUT "):
            parts = line.split()
            tag = parts[1]
            o = r["out"].setdefault(tag, {"pos": {}, "crd": {}, "vals": None, "done": False})
            if parts[2] == "BAD":
                r["bad"].append(" ".join(parts[1:]))
            elif parts[2] == "DONE":
                o["done"] = True
            elif parts[2] in ("pos", "crd"):
                o[parts[2]][int(parts[3])] = [int(x) for x in parts[5:]]
            elif parts[2] == "vals":
                o["vals"] = [int(x, 16) for x in parts[4:]]
        elif line.startswith("INPUT-MODIFIED"):
            r["input_modified"].append(line)
        else:
            if len(r["log"]) < 12:
                r["log"].append(line[:300])
    return res


def syntax_check(c_text, timeout=120):
    """gcc -fsyntax-only of emitted kernel C under the published preamble.  -> None or error text."""
    d = tempfile.mkdtemp(prefix="verif_cs_")
    try:
        src = os.path.join(d, "k.c")
        with open(src, "w") as fh:
            fh.write(preamble() + c_text + "\n")
        cp = subprocess.run(["gcc", *STRICT_FLAGS, "-fsyntax-only", src], capture_output=True, text=True, timeout=timeout)
        return None if cp.returncode == 0 else cp.stderr[-1500:]
    finally:
        shutil.rmtree(d, ignore_errors=True)
