"""Hand-listed assignment shapes for bounded-exhaustive sweeps (DESIGN.md §2.1 'Templates')."""
from __future__ import annotations

import itertools

from . import cases as C

# (name, assignment text, quick?)  -- every tensor is given *every* format in exhaustive mode
TEMPLATES = [
    ("copy1", "o(i) = a(i)", True),
    ("copy2", "o(i,j) = a(i,j)", True),
    ("transpose2", "o(i,j) = a(j,i)", True),
    ("copy3", "o(i,j,k) = a(i,j,k)", False),
    ("transpose3_jik", "o(i,j,k) = a(j,i,k)", True),
    ("transpose3_kij", "o(i,j,k) = a(k,i,j)", False),
    ("transpose3_kji", "o(i,j,k) = a(k,j,i)", False),
    ("scale", "o(i,j) = 2 * a(i,j)", False),
    ("add1", "o(i) = a(i) + b(i)", True),
    ("sub1", "o(i) = a(i) - b(i)", False),
    ("mul1", "o(i) = a(i) * b(i)", True),
    ("add2", "o(i,j) = a(i,j) + b(i,j)", True),
    ("mul2", "o(i,j) = a(i,j) * b(i,j)", False),
    ("add2t", "o(i,j) = a(i,j) + b(j,i)", False),
    ("dot", "o() = a(i) * b(i)", True),
    ("sum1", "o() = a(i)", False),
    ("rowsum", "o(i) = a(i,j)", True),
    ("colsum", "o(j) = a(i,j)", False),
    ("spmv", "o(i) = a(i,j) * x(j)", True),
    ("spmv_t", "o(j) = a(i,j) * x(i)", False),
    ("spmv_plus", "o(i) = a(i,j) * x(j) + z(i)", False),
    ("axpy_lit", "o(i) = a(i) + 1", True),
    ("lit_mul_contract", "o() = 2 * a(k) + b(k)", False),
    ("scalar_plus_contract", "o() = s() + a(k) + b(k)", True),
    ("spmm", "o(i,k) = a(i,j) * b(j,k)", True),
    ("sddmm", "o(i,j) = s(i,j) * a(i,k) * b(k,j)", False),
    ("ttv", "o(i,j) = a(i,j,k) * x(k)", True),
    ("mttkrp", "o(i,j) = a(i,k,l) * c(k,j) * d(l,j)", False),
    ("outer", "o(i,j) = a(i) * b(j)", True),
    ("bcast_add", "o(i,j) = a(i,j) + b(j)", False),
    ("bcast_scalar", "o(i,j) = a(i,j) + s()", False),
    ("quad_form", "o() = x(i) * v(i,j) * x(j)", True),
    ("reuse_sq", "o(i,j) = a(i,j) * a(i,j)", False),
    ("reuse_t", "o(i,j) = a(i,j) + a(j,i)", False),
    ("sum_of_products", "o(i) = a(i,j) * x(j) + b(i,j) * y(j)", True),
    ("prod_of_sums", "o(i) = (a(i) + b(i)) * (c(i) + 1)", False),
    ("sub_nested", "o(i) = a(i) - (b(i) - c(i))", False),
    ("float_lits", "o(i) = 0.5 * a(i) + 1.5", False),
    ("three_way_add", "o(i) = a(i) + b(i) + c(i)", False),
    ("mat_vec_vec", "o(i) = a(i,j) * x(j) * y(i)", False),
]


def all_formats(order):
    for modes in itertools.product("ds", repeat=order):
        for o in itertools.permutations(range(order)):
            yield C.fmt_text(modes, o)


def tensor_orders(text):
    """{name: order} in canonical parameter order (target first) for an assignment text."""
    from tensora.expression import parse_assignment

    return dict(parse_assignment(text).unwrap().variable_orders())


def format_product_size(orders):
    n = 1
    for o in orders.values():
        n *= sum(1 for _ in all_formats(o))
    return n


def enumerate_formats(orders, limit=None, seed=0):
    """All format assignments (dicts) for the tensors; when the product exceeds ``limit`` a deterministic
    stride sample of ``limit`` assignments is returned and the second result is False (not exhaustive)."""
    names = list(orders)
    lists = [list(all_formats(orders[n])) for n in names]
    total = 1
    for l in lists:
        total *= len(l)
    if limit is None or total <= limit:
        return [dict(zip(names, combo)) for combo in itertools.product(*lists)], True
    out = []
    # stride co-prime with total, offset by seed
    stride = max(1, total // limit)
    while stride > 1 and _gcd(stride, total) != 1:
        stride += 1
    k = seed % total
    for _ in range(limit):
        idx = k
        combo = []
        for l in reversed(lists):
            combo.append(l[idx % len(l)])
            idx //= len(l)
        out.append(dict(zip(names, reversed(combo))))
        k = (k + stride) % total
    return out, False


def _gcd(a, b):
    while b:
        a, b = b, a % b
    return a
