"""Signature predicates for known findings (DESIGN.md §2.7).  Each takes (case, fail-info) and
decides whether a failure is an instance of the listed root cause - nothing is skipped blindly:
the failure has already been compared against the finding's defect model where one exists."""
from __future__ import annotations


def fused_product(case, info):
    """F-B: the only offending contractions are fused over a *product* (desugar_multiply) and the
    observed values equal the literal denotation of tensora's desugared tree (checked by the caller,
    which is what puts 'fused' into the info)."""
    return info.get("fused") == ["Multiply"]


def literal_only_int_arithmetic(case, info):
    """F-I: the trap is int32 arithmetic/range on an IR expression made of literals only."""
    return bool(info.get("literal_only")) and info.get("trap") in ("int-overflow", "int-literal-range")


def reserved_name(case, info):
    """F-J: the problem spells a tensor or an index as a reserved word (C/Python keyword, libc/stdbool name)."""
    return bool(info.get("reserved"))


def many_operands(case, info):
    """F-L: more than 8 tensor occurrences (outside the bounded domain of the generators)."""
    import re

    return len(re.findall(r"[A-Za-z][A-Za-z0-9]*\(", case["assignment"].split("=", 1)[1])) > 8


def wide_sparse_search(case, info):
    """F-M: at least 8 distinct index names, and compressed levels or index lists / level orders that are not all
    increasing in one global order (the generator marks all-dense, globally ordered problems): the search for a legal iteration order (or for the proof that there is none) enumerates the interleavings of
    all indexes."""
    return len(set(case.get("indexes", []))) >= 8 and not case.get("globally_ordered")


def deep_nesting(case, info):
    """F-N: the text nests parentheses at least 50 deep (every level costs the recursive-descent parser a dozen Python
    frames; at 70 levels the interpreter's default recursion limit is exceeded)."""
    depth = best = 0
    for ch in case.get("text", ""):
        if ch == "(":
            depth += 1
            best = max(best, depth)
        elif ch == ")":
            depth = max(0, depth - 1)
    return best >= 50


def oob_on_dense_level(case, info):
    """F-F: the out-of-range coordinate lies on an axis stored in a dense level."""
    return bool(info.get("dense_level"))


def always(case, info):
    return True


SIGNATURES = {
    "fused_product": fused_product,
    "literal_only_int_arithmetic": literal_only_int_arithmetic,
    "always": always,
    "oob_on_dense_level": oob_on_dense_level,
    "reserved_name": reserved_name,
    "many_operands": many_operands,
    "wide_sparse_search": wide_sparse_search,
    "deep_nesting": deep_nesting,
}
