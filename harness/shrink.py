"""Structural shrinking of kernel cases (library-free, deterministic)."""
from __future__ import annotations

from . import cases as C
from . import exprs as X
from .runner import minimise


def _rebuild(case, tree=None, target=None, formats=None, sizes=None, inputs=None):
    c = dict(case)
    tree = tree if tree is not None else case["expr"]
    target = target if target is not None else case["target"]
    used = X.indexes_of(tree)
    target = [target[0], [i for i in target[1] if i in used]]
    names = [target[0]]
    for t in X.tensors(tree):
        if t[1] not in names:
            names.append(t[1])
    fm = dict(formats if formats is not None else case["formats"])
    # target order may have changed
    if len(C.fmt_parts(fm[target[0]])[0]) != len(target[1]):
        fm[target[0]] = "d" * len(target[1])
    c["expr"] = tree
    c["target"] = target
    c["assignment"] = X.assignment_text(target, tree)
    c["formats"] = {n: fm[n] for n in names}
    sz = dict(sizes if sizes is not None else case["sizes"])
    c["sizes"] = {i: sz[i] for i in sorted(set(used) | set(target[1])) if i in sz}
    inp = inputs if inputs is not None else case["inputs"]
    c["inputs"] = {n: inp[n] for n in names[1:]}
    return c


def _dok_of(case, name):
    first = next(t for t in X.tensors(case["expr"]) if t[1] == name)
    dims = tuple(case["sizes"][i] for i in first[2])
    _m, o = C.fmt_parts(case["formats"][name])
    s = case["inputs"][name]
    return dims, C.stored_coords(s["levels"], s["vals"], dims, o)


def _restore(dok, dims, fmt):
    m, o = C.fmt_parts(fmt)
    levels, vals = C.levels_from_dok(dok, dims, m, o)
    return {"levels": levels, "vals": vals}


def kernel_candidates(case):
    tree = case["expr"]

    # 1. replace the tree by a child / a subtree by a child
    def subs(t):
        if X.is_leaf(t):
            return
        yield t[1]
        yield t[2]
        for s in subs(t[1]):
            yield [t[0], s, t[2]]
        for s in subs(t[2]):
            yield [t[0], t[1], s]

    for s in subs(tree):
        try:
            yield _rebuild(case, tree=s)
        except Exception:
            continue
    # 2. drop a target index
    tgt = case["target"]
    for k in range(len(tgt[1])):
        nt = [tgt[0], tgt[1][:k] + tgt[1][k + 1:]]
        fm = dict(case["formats"])
        fm[tgt[0]] = "d" * len(nt[1])
        yield _rebuild(case, target=nt, formats=fm)
    # 3. formats to dense natural / natural ordering
    for n, f in case["formats"].items():
        modes, ordering = C.fmt_parts(f)
        for nf in ("d" * len(modes), "".join(modes)):
            if nf != f:
                fm = dict(case["formats"])
                fm[n] = nf
                inputs = dict(case["inputs"])
                if n in inputs:
                    dims, dok = _dok_of(case, n)
                    inputs[n] = _restore(dok, dims, nf)
                yield _rebuild(case, formats=fm, inputs=inputs)
    # 4. shrink a size by one (alias classes move together)
    from .gen import alias_classes

    for cls in alias_classes(tree, case["target"][1]):
        s = case["sizes"][cls[0]]
        if s == 0:
            continue
        sizes = dict(case["sizes"])
        for i in cls:
            sizes[i] = s - 1
        inputs = {}
        for n in case["inputs"]:
            first = next(t for t in X.tensors(tree) if t[1] == n)
            dims, dok = _dok_of(case, n)
            ndims = tuple(sizes[i] for i in first[2])
            nd = {c: v for c, v in dok.items() if all(x < d for x, d in zip(c, ndims))}
            inputs[n] = _restore(nd, ndims, case["formats"][n])
        yield _rebuild(case, sizes=sizes, inputs=inputs)
    # 5. drop one stored entry / set a value to 1
    for n in case["inputs"]:
        dims, dok = _dok_of(case, n)
        for c in list(dok):
            nd = dict(dok)
            del nd[c]
            inputs = dict(case["inputs"])
            inputs[n] = _restore(nd, dims, case["formats"][n])
            yield _rebuild(case, inputs=inputs)
        s = case["inputs"][n]
        for k, v in enumerate(s["vals"]):
            if v != 1.0:
                ns = {"levels": s["levels"], "vals": s["vals"][:k] + [1.0] + s["vals"][k + 1:]}
                inputs = dict(case["inputs"])
                inputs[n] = ns
                yield _rebuild(case, inputs=inputs)
    # 6. default capacity
    if case.get("capacity") is not None:
        c = dict(case)
        c["capacity"] = None
        yield c


def minimise_kernel_case(case, still_fails, max_evals=300):
    return minimise(case, kernel_candidates, still_fails, max_evals)
