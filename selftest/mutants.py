"""Mutants for the sensitivity self-test: (id, property checks expected to catch it, file, old, new, description).
Each is a small, realistic change that keeps the package importable."""
M = []


def m(mid, props, file, old, new, desc, more=()):
    M.append({"id": mid, "props": props, "file": file, "old": old, "new": new, "desc": desc, "more": list(more)})


G = "src/tensora/iteration_graph/_generate_ir.py"
m("gen-min-first-only", ["C01", "C02"], G, "loop_variable.declare(types.integer).assign(Min.join(index_variables))",
  "loop_variable.declare(types.integer).assign(Min.join(index_variables[:1]))",
  "sparse co-iteration advances to the first operand's coordinate instead of the minimum over all operands")
m("gen-dense-pos-wrong-dim", ["C01", "C05"], G,
  "pointer_value = previous_pointer.times(dimension_name(index_variable_i)).plus(",
  "pointer_value = previous_pointer.times(dimension_name(self.index_variable)).plus(",
  "dense position = previous*dim + index uses the loop's dimension instead of the layer's")
m("gen-flag-unconditional", ["C03"], G, "    if self.expression != Integer(0):\n        for flag in output.written_flags():",
  "    if True:\n        for flag in output.written_flags():",
  "terminal raises the written flags even when its expression exhausted to literal 0")
m("gen-is-sparse-output-none", ["C16"], G,
  "is_sparse = self.is_sparse_input() and (self.output is None or self.is_sparse_output())",
  "is_sparse = self.is_sparse_input() and (self.output is not None and self.is_sparse_output())",
  "contraction loops over sparse operands become dense loops (work grows with the dimension)")
W = "src/tensora/iteration_graph/_write_sparse_ir.py"
m("crd-capacity-gt", ["C05", "C02"], W, "    with source.branch(GreaterThanOrEqual(pointer, capacity)):\n        source.append(capacity.assign(capacity.times(2)))\n        source.append(crd.assign",
  "    with source.branch(GreaterThanOrEqual(pointer, capacity.plus(1))):\n        source.append(capacity.assign(capacity.times(2)))\n        source.append(crd.assign",
  "crd growth test uses pointer >= capacity + 1 (one element written past the end)")
m("pos-assembly-off-by-one", ["C02", "C01"], W, "source.append(pos.idx(previous_pointer.plus(1)).assign(pointer))",
  "source.append(pos.idx(previous_pointer).assign(pointer))", "pos[parent] written instead of pos[parent+1]")
A = "src/tensora/iteration_graph/outputs/_append.py"
m("drop-final-crd-realloc", ["C02"], A,
  "                    source.append(\n                        crd_array.assign(ArrayReallocate(crd_array, types.integer, final_size))\n                    )\n",
  "", "crd is not shrunk to its final size")
m("vals-shrunk-too-far", ["C05", "C02"], A, "padded_size = final_size.plus(1)", "padded_size = final_size.minus(1)",
  "vals reallocated one element too short")
B = "src/tensora/iteration_graph/outputs/_bucket.py"
m("bucket-ravel-reversed", ["C01"], B, "for dim_i, index_i in zip(reversed(dimensions), reversed(indexes), strict=True):",
  "for dim_i, index_i in zip(dimensions, indexes, strict=True):", "bucket index ravelled in the wrong order")
m("compute-skips-bucket-init", ["C04"], A, "                    if kernel_type.is_compute()\n                    else SourceBuilder()",
  "                    if kernel_type == KernelType.evaluate\n                    else SourceBuilder()",
  "the compute kernel does not zero-initialise buckets (second compute accumulates)")
P = "src/tensora/ir/_peephole.py"
m("peephole-zero-minus", ["C07"], P, "    if right == IntegerLiteral(0) or right == FloatLiteral(0.0):\n        return left\n    else:\n        return Subtract(left, right)",
  "    if right == IntegerLiteral(0) or right == FloatLiteral(0.0):\n        return left\n    elif left == IntegerLiteral(0) or left == FloatLiteral(0.0):\n        return right\n    else:\n        return Subtract(left, right)",
  "0 - x => x")
m("peephole-and-true-wrong-side", ["C07"], P, "    elif left == BooleanLiteral(True):\n        return right\n    elif right == BooleanLiteral(True):\n        return left\n    else:\n        return And(left, right)",
  "    elif left == BooleanLiteral(True):\n        return left\n    elif right == BooleanLiteral(True):\n        return left\n    else:\n        return And(left, right)",
  "true && x => true")
m("peephole-lost-else", ["C07"], P, "    elif condition == BooleanLiteral(False):\n        return if_false", "    elif condition == BooleanLiteral(False):\n        return Block([])",
  "if (false) A else B => {} (else branch lost)")
CC = "src/tensora/codegen/_ir_to_c.py"
m("c-subtract-no-parens", ["C06"], CC, 'return f"{ir_to_c_expression(self.left)} - {parens(self.right, (Add, Subtract))}"',
  'return f"{ir_to_c_expression(self.left)} - {ir_to_c_expression(self.right)}"', "a - (b + c) printed without parentheses")
m("c-and-no-parens", ["C06"], CC, 'return f"{parens(self.left, Or)} && {parens(self.right, Or)}"',
  'return f"{ir_to_c_expression(self.left)} && {ir_to_c_expression(self.right)}"', "(a || b) && c printed without parentheses")
L = "src/tensora/codegen/_ir_to_llvm.py"
m("llvm-uitofp", ["C06"], L, "        case (llvm.IntType(), llvm.DoubleType()):\n            left = builder.sitofp(left, llvm_float_type)\n            return builder.fmul(left, right)",
  "        case (llvm.IntType(), llvm.DoubleType()):\n            left = builder.uitofp(left, llvm_float_type)\n            return builder.fmul(left, right)",
  "int*double promotes the int as unsigned")
m("llvm-min-unsigned", ["C06"], L, '    condition = builder.icmp_signed("<", left, right)\n    return builder.select(condition, left, right)',
  '    condition = builder.icmp_unsigned("<", left, right)\n    return builder.select(condition, left, right)', "Min compares unsigned")
T = "src/tensora/tensor.py"
m("operator-add-intersection", ["C11"], T, '                "d" if mode1 == Mode.dense or mode2 == Mode.dense else "s"',
  '                "d" if mode1 == Mode.dense and mode2 == Mode.dense else "s"', "a + b output format uses the intersection of densities")
m("matvec-format-from-wrong-dimension", ["C11"], T, "            output_format = left.format.modes[left.format.ordering[0]].character\n            return evaluate_tensora(\n                \"output(i) = left(i,j) * right(j)\"",
  "            output_format = left.format.modes[left.format.ordering[1]].character\n            return evaluate_tensora(\n                \"output(i) = left(i,j) * right(j)\"",
  "matrix @ vector takes the result mode from the contracted dimension")
m("tensor-crd-descending", ["C09"], T, "            idx = sorted(node.keys())", "            idx = sorted(node.keys(), reverse=len(node) > 2)",
  "segments with more than two coordinates are stored in descending order")
m("pickle-drops-ordering", ["C09"], T, '            "mode_ordering": self.format.ordering,', '            "mode_ordering": tuple(range(self.order)),',
  "__getstate__ forgets the mode ordering")
TM = "src/tensora/compile/_tensor_method.py"
m("dims-check-first-two", ["C10"], TM, "            for _, _, size in actual_sizes[1:]:", "            for _, _, size in actual_sizes[1:2]:",
  "only the first two participants of an index are compared")
m("ordering-check-dropped", ["C10"], TM, "            if tuple(argument.mode_ordering) != tuple(format.ordering):", "            if False:",
  "mode ordering of arguments is not checked")
m("ownership-twice", ["C13"], TM, "        take_ownership_of_arrays(cffi_output)\n", "        take_ownership_of_arrays(cffi_output)\n        take_ownership_of_arrays(cffi_output)\n",
  "ownership taken twice (first gc wrapper frees immediately)")
m("ownership-skipped-for-scalars", ["C13"], TM, "        take_ownership_of_arrays(cffi_output)\n", "        if len(output_dimensions) > 0:\n            take_ownership_of_arrays(cffi_output)\n",
  "scalar results leak their vals array")
PR = "src/tensora/problem.py"
m("problem-eq-ignores-formats", ["C15"], PR, "            return self.assignment == other.assignment and tuple(self.formats.items()) == tuple(\n                other.formats.items()\n            )",
  "            return self.assignment == other.assignment and tuple(self.formats.keys()) == tuple(\n                other.formats.keys()\n            )",
  "Problem equality and hash ignore the formats' contents",
  more=[("return hash((self.assignment, tuple(self.formats.items())))", "return hash((self.assignment, tuple(self.formats.keys())))")])
E = "src/tensora/expression/ast.py"
m("deparse-subtract-no-parens", ["C12"], E, '        right_string = self.right.deparse()\n        if isinstance(self.right, (Add, Subtract)):\n            right_string = f"({right_string})"\n\n        return left_string + " - " + right_string',
  '        right_string = self.right.deparse()\n        if isinstance(self.right, Add):\n            right_string = f"({right_string})"\n\n        return left_string + " - " + right_string',
  "a - (b - c) deparsed without parentheses")
F = "src/tensora/format/_format.py"
m("format-accepts-duplicate-ordering", ["C12"], F, "        if set(self.ordering) != set(range(len(self.modes))):", "        if not set(self.ordering) <= set(range(len(self.modes))):",
  "d0d0 accepted as a format")
D = "src/tensora/desugar/_to_iteration_graphs.py"
m("pending-compressed-guard-removed", ["C08", "C01"], D, "                    and not target_has_pending_compressed(target, output_layers)\n", "",
  "contraction may be placed before a pending compressed output layer")
