#!/venv/bin/python
"""Sensitivity self-test: apply each mutant to a scratch copy of /repo/src, run the quick checks that should
catch it against the copy (VERIF_REPO_SRC), expect exit 1; optionally confirm the repository's own tests still
pass on the mutant (--with-tests).  Prints a table; scratch copies are removed.
usage: selftest/run.py [--with-tests] [--only ID[,ID]] [--jobs N]"""
import argparse
import json
import os
import shutil
import subprocess
import sys
import tempfile

HERE = os.path.dirname(os.path.abspath(__file__))
VERIF = os.path.dirname(HERE)
sys.path.insert(0, HERE)
from mutants import M  # noqa: E402


def run_one(mu, with_tests):
    d = tempfile.mkdtemp(prefix="verif_mut_")
    try:
        shutil.copytree("/repo/src", os.path.join(d, "src"))
        path = os.path.join(d, mu["file"])
        s = open(path).read()
        if s.count(mu["old"]) != 1:
            return {"id": mu["id"], "status": f"PATCH-DOES-NOT-APPLY ({s.count(mu['old'])} matches)"}
        s = s.replace(mu["old"], mu["new"])
        for old2, new2 in mu.get("more", []):
            if s.count(old2) != 1:
                return {"id": mu["id"], "status": "PATCH-DOES-NOT-APPLY (more)"}
            s = s.replace(old2, new2)
        open(path, "w").write(s)
        out = {"id": mu["id"], "desc": mu["desc"], "checks": {}}
        env = dict(os.environ, VERIF_REPO_SRC=os.path.join(d, "src"), VERIF_EVIDENCE_DIR=os.path.join(d, "evidence"))
        imp = subprocess.run(["/venv/bin/python", "-c", "import tensora"], env=dict(env, PYTHONPATH=os.path.join(d, "src")),
                             capture_output=True, text=True)
        if imp.returncode != 0:
            out["status"] = "DOES-NOT-IMPORT"
            return out
        if with_tests:
            t = subprocess.run(["/venv/bin/python", "-m", "pytest", "-q", "-p", "no:cacheprovider", "-x", "-n", "8", "tests", "tests_cffi"],
                               cwd="/repo", env=dict(os.environ, PYTHONPATH=os.path.join(d, "src")), capture_output=True, text=True)
            out["repo_tests"] = "pass" if t.returncode == 0 else "FAIL: " + t.stdout.strip().splitlines()[-1][:120]
        for prop in mu["props"]:
            r = subprocess.run([os.path.join(VERIF, "vcheck"), prop, "--tier", "quick"], env=env, capture_output=True, text=True)
            viol = [l for l in r.stdout.splitlines() if l.startswith("VIOLATION")]
            out["checks"][prop] = {"exit": r.returncode, "violations": len(viol), "first": viol[0][:220] if viol else ""}
        out["status"] = "caught" if any(c["exit"] == 1 for c in out["checks"].values()) else "MISSED"
        return out
    finally:
        shutil.rmtree(d, ignore_errors=True)


def main():
    ap = argparse.ArgumentParser()
    ap.add_argument("--with-tests", action="store_true")
    ap.add_argument("--only")
    a = ap.parse_args()
    sel = [m for m in M if not a.only or m["id"] in a.only.split(",")]
    results = []
    for mu in sel:
        r = run_one(mu, a.with_tests)
        results.append(r)
        print(json.dumps(r), flush=True)
    with open(os.path.join(HERE, "results.json"), "w") as fh:
        json.dump(results, fh, indent=1)
    missed = [r["id"] for r in results if r.get("status") != "caught"]
    print(f"{len(results) - len(missed)}/{len(results)} mutants caught; not caught: {missed}")
    return 0 if not missed else 1


if __name__ == "__main__":
    sys.exit(main())
